#![no_main]
use libfuzzer_sys::fuzz_target;

fuzz_target!(|data: &[u8]| {
    nsv::fuzzdec::run_target("hist", data);
});
