//! Shared machinery: configuration, statistics, panic capture, proptest driving,
//! replay files, pivot scripts and the pivot-sequence DFS.

use proptest::strategy::Strategy;
use proptest::test_runner::{Config, RngSeed, TestCaseError, TestError, TestRunner};
use serde::{Deserialize, Serialize};
use serde_json::{json, Value};
use std::cell::{Cell, RefCell};
use std::collections::hash_map::DefaultHasher;
use std::collections::{BTreeMap, HashSet};
use std::hash::{Hash, Hasher};
use std::panic::{catch_unwind, AssertUnwindSafe};

// ---------------------------------------------------------------------------------------
// configuration

#[derive(Clone, Copy, Debug, PartialEq, Eq)]
pub enum Tier {
    Quick,
    Thorough,
}

impl Tier {
    pub fn name(self) -> &'static str {
        match self {
            Tier::Quick => "quick",
            Tier::Thorough => "thorough",
        }
    }
    /// `q` in the quick tier, `t` in the thorough one.
    pub fn pick<T>(self, q: T, t: T) -> T {
        match self {
            Tier::Quick => q,
            Tier::Thorough => t,
        }
    }
}

#[derive(Clone, Debug)]
pub struct Cfg {
    pub prop: String,
    pub tier: Tier,
    pub seed: u64,
    pub shard: u32,
    pub nshards: u32,
    pub profile: String,
    pub journal: bool,
    pub out_dir: String,
}

pub fn profile_name() -> &'static str {
    if cfg!(debug_assertions) {
        "checked"
    } else {
        "fast"
    }
}

pub fn splitmix64(mut x: u64) -> u64 {
    x = x.wrapping_add(0x9E37_79B9_7F4A_7C15);
    let mut z = x;
    z = (z ^ (z >> 30)).wrapping_mul(0xBF58_476D_1CE4_E5B9);
    z = (z ^ (z >> 27)).wrapping_mul(0x94D0_49BB_1331_11EB);
    z ^ (z >> 31)
}

pub fn hash_str(s: &str) -> u64 {
    let mut h = DefaultHasher::new();
    s.hash(&mut h);
    h.finish()
}

pub fn hash_of<T: Hash>(t: &T) -> u64 {
    let mut h = DefaultHasher::new();
    t.hash(&mut h);
    h.finish()
}

// ---------------------------------------------------------------------------------------
// check results

/// What a check function says about one case that did not violate the property.
#[derive(Clone, Debug, Default)]
pub struct Info {
    /// non-trivial by the property's stated rule
    pub nontrivial: bool,
    /// the case matches the signature of an open known finding and was not judged
    pub excluded: bool,
    /// the case is outside the property's domain (counted as discarded)
    pub discarded: bool,
    /// generator classes this case belongs to (for the distribution report)
    pub classes: Vec<&'static str>,
}

impl Info {
    pub fn new(nontrivial: bool) -> Info {
        Info {
            nontrivial,
            ..Default::default()
        }
    }
    pub fn excluded() -> Info {
        Info {
            excluded: true,
            ..Default::default()
        }
    }
    pub fn discarded() -> Info {
        Info {
            discarded: true,
            ..Default::default()
        }
    }
    pub fn class(mut self, c: &'static str) -> Info {
        self.classes.push(c);
        self
    }
    pub fn class_if(mut self, cond: bool, c: &'static str) -> Info {
        if cond {
            self.classes.push(c);
        }
        self
    }
}

#[derive(Clone, Debug, Serialize, Deserialize)]
pub struct Failure {
    /// wrong-value | panic | no-panic | tolerance | aliasing | guard | fuel | error-kind | ...
    pub kind: String,
    pub msg: String,
}

impl Failure {
    pub fn new(kind: &str, msg: impl Into<String>) -> Failure {
        Failure {
            kind: kind.to_string(),
            msg: msg.into(),
        }
    }
}

pub type CheckResult = Result<Info, Failure>;

#[macro_export]
macro_rules! fail {
    ($kind:expr, $($arg:tt)*) => {
        return Err($crate::core::Failure::new($kind, format!($($arg)*)))
    };
}

#[macro_export]
macro_rules! ensure {
    ($cond:expr, $kind:expr, $($arg:tt)*) => {
        if !($cond) {
            return Err($crate::core::Failure::new($kind, format!($($arg)*)));
        }
    };
}

// ---------------------------------------------------------------------------------------
// panic capture

thread_local! {
    static LAST_PANIC: RefCell<String> = RefCell::new(String::new());
}

pub fn install_quiet_panic_hook() {
    std::panic::set_hook(Box::new(|info| {
        let msg = if let Some(s) = info.payload().downcast_ref::<&str>() {
            s.to_string()
        } else if let Some(s) = info.payload().downcast_ref::<String>() {
            s.clone()
        } else {
            "<non-string panic payload>".to_string()
        };
        let loc = info
            .location()
            .map(|l| format!(" at {}:{}", l.file(), l.line()))
            .unwrap_or_default();
        LAST_PANIC.with(|p| *p.borrow_mut() = format!("{}{}", msg, loc));
    }));
}

pub fn last_panic() -> String {
    LAST_PANIC.with(|p| p.borrow().clone())
}

/// Runs `f`, returning `Err(panic message)` if it unwinds. Hook state is reset afterwards.
pub fn catch<R>(f: impl FnOnce() -> R) -> Result<R, String> {
    match catch_unwind(AssertUnwindSafe(f)) {
        Ok(r) => Ok(r),
        Err(_) => {
            reset_hooks();
            Err(last_panic())
        }
    }
}

pub fn reset_hooks() {
    // (tracing is owned by `dfs_pivots` and deliberately left alone here)
    ndarray_stats::verif_hooks::set_chooser(None);
    ndarray_stats::verif_hooks::set_fuel(None);
}

/// Runs a check function; a panic escaping from it is a failure of kind `panic`
/// (expected panics are caught inside the check with [`catch`]).
pub fn guarded<C>(check: &dyn Fn(&C) -> CheckResult, case: &C) -> CheckResult {
    match catch_unwind(AssertUnwindSafe(|| check(case))) {
        Ok(r) => {
            reset_hooks();
            r
        }
        Err(_) => {
            reset_hooks();
            Err(Failure::new("panic", format!("unexpected panic: {}", last_panic())))
        }
    }
}

// ---------------------------------------------------------------------------------------
// statistics

#[derive(Clone, Debug, Serialize, Deserialize)]
pub struct ViolationRec {
    pub checker: String,
    pub kind: String,
    pub msg: String,
    pub replay: String,
}

#[derive(Clone, Debug, Default, Serialize, Deserialize)]
pub struct Stats {
    pub evaluations: u64,
    /// hashes of the non-trivial cases of the randomised engines
    pub nontrivial_hashes: Vec<u64>,
    /// non-trivial cases of the enumerating engines (distinct by construction)
    pub nontrivial_enumerated: u64,
    pub classes: BTreeMap<String, u64>,
    pub engines: BTreeMap<String, u64>,
    pub excluded_by_known_finding: u64,
    pub discarded: u64,
    pub samples: Vec<Value>,
    pub exhaustive: Vec<String>,
    pub notes: Vec<String>,
    pub violations: Vec<ViolationRec>,
    pub known_seen: BTreeMap<String, u64>,
}

pub struct Ctx {
    pub cfg: Cfg,
    pub stats: RefCell<Stats>,
    hashes: RefCell<HashSet<u64>>,
    sample_budget: RefCell<BTreeMap<String, u32>>,
    stop: Cell<bool>,
    journal_n: Cell<u64>,
}

impl Ctx {
    pub fn new(cfg: Cfg) -> Ctx {
        Ctx {
            cfg,
            stats: RefCell::new(Stats::default()),
            hashes: RefCell::new(HashSet::new()),
            sample_budget: RefCell::new(BTreeMap::new()),
            stop: Cell::new(false),
            journal_n: Cell::new(0),
        }
    }

    pub fn tier(&self) -> Tier {
        self.cfg.tier
    }

    pub fn stopped(&self) -> bool {
        self.stop.get()
    }

    /// A seed for one engine of this shard: a pure function of VERIF_SEED, the shard
    /// number, the profile-independent engine name.
    pub fn engine_seed(&self, engine: &str) -> u64 {
        splitmix64(
            self.cfg
                .seed
                .wrapping_mul(0x1000_0000_01B3)
                .wrapping_add(splitmix64(hash_str(engine)))
                .wrapping_add(self.cfg.shard as u64 * 0x9E37_79B9),
        )
    }

    /// Whether this shard owns work item `k` of a sharded enumeration.
    pub fn mine(&self, k: u64) -> bool {
        k % self.cfg.nshards as u64 == self.cfg.shard as u64
    }

    pub fn note(&self, s: impl Into<String>) {
        self.stats.borrow_mut().notes.push(s.into());
    }

    pub fn exhaustive(&self, s: impl Into<String>) {
        self.stats.borrow_mut().exhaustive.push(s.into());
    }

    fn want_sample(&self, checker: &str, nth_nontrivial: u64) -> bool {
        // first non-trivial case of each checker, then the 64th, 4096th ... (replacing)
        let _ = checker;
        nth_nontrivial == 1 || nth_nontrivial == 64 || nth_nontrivial == 4096 || nth_nontrivial == 262_144
    }

    /// Records the outcome of one executed case.
    pub fn record<C: Serialize>(
        &self,
        engine: &'static str,
        checker: &str,
        case: &C,
        hash: Option<u64>,
        info: &Info,
    ) {
        let mut st = self.stats.borrow_mut();
        st.evaluations += 1;
        *st.engines.entry(engine.to_string()).or_insert(0) += 1;
        if info.excluded {
            st.excluded_by_known_finding += 1;
            return;
        }
        if info.discarded {
            st.discarded += 1;
            return;
        }
        for c in &info.classes {
            *st.classes.entry((*c).to_string()).or_insert(0) += 1;
        }
        if info.nontrivial {
            let fresh = match hash {
                Some(h) => self.hashes.borrow_mut().insert(h),
                None => {
                    st.nontrivial_enumerated += 1;
                    true
                }
            };
            if fresh {
                let mut sb = self.sample_budget.borrow_mut();
                let n = sb.entry(checker.to_string()).or_insert(0);
                *n += 1;
                if self.want_sample(checker, *n as u64) && st.samples.len() < 24 {
                    st.samples.push(json!({
                        "checker": checker,
                        "engine": engine,
                        "nth_nontrivial_of_checker_in_shard": *n,
                        "case": abridge(serde_json::to_value(case).unwrap_or(Value::Null)),
                    }));
                }
            }
        }
    }

    pub fn journal<C: Serialize>(&self, checker: &str, case: &C) {
        if self.cfg.journal {
            let n = self.journal_n.get();
            self.journal_n.set(n + 1);
            let path = format!(
                "{}/journal-{}-{}-{}.json",
                self.cfg.out_dir, self.cfg.prop, self.cfg.profile, self.cfg.shard
            );
            let v = json!({"property": self.cfg.prop, "checker": checker, "profile": self.cfg.profile,
                "seed": self.cfg.seed, "case": serde_json::to_value(case).unwrap_or(Value::Null),
                "kind": "signal", "message": "worker was killed while executing this case", "n": n});
            let _ = std::fs::write(&path, serde_json::to_vec(&v).unwrap());
        }
    }

    /// Writes a replay file and records the violation. Stops the shard.
    pub fn violation<C: Serialize>(&self, checker: &str, case: &C, f: &Failure) {
        let case_v = serde_json::to_value(case).unwrap_or(Value::Null);
        let h = hash_str(&format!("{}{}{}", checker, case_v, f.kind));
        let dir = format!("{}/replay", self.cfg.out_dir);
        let _ = std::fs::create_dir_all(&dir);
        let path = format!(
            "{}/{}-{}-{:016x}.json",
            dir,
            self.cfg.prop,
            checker.replace('/', "_"),
            h
        );
        let v = json!({
            "property": self.cfg.prop,
            "checker": checker,
            "profile": self.cfg.profile,
            "seed": self.cfg.seed,
            "tier": self.cfg.tier.name(),
            "case": case_v,
            "kind": f.kind,
            "message": f.msg,
        });
        let _ = std::fs::write(&path, serde_json::to_string_pretty(&v).unwrap());
        self.stats.borrow_mut().violations.push(ViolationRec {
            checker: checker.to_string(),
            kind: f.kind.clone(),
            msg: f.msg.clone(),
            replay: path,
        });
        self.stop.set(true);
    }

    pub fn finish(self) -> Stats {
        let mut st = self.stats.into_inner();
        st.nontrivial_hashes = self.hashes.into_inner().into_iter().collect();
        st
    }

    // -----------------------------------------------------------------------------------
    // engines

    /// Randomised engine: `cases` generated cases in total, split over the shards.
    pub fn run_proptest<C, S>(
        &self,
        checker: &'static str,
        total_cases: u64,
        strat: S,
        check: &dyn Fn(&C) -> CheckResult,
    ) where
        C: std::fmt::Debug + Serialize + Hash + Clone,
        S: Strategy<Value = C>,
    {
        if self.stopped() {
            return;
        }
        // the per-checker counts in props/*.rs are base values; both tiers scale them
        // (fixed work: the scale is a constant, not a time budget)
        let scale = std::env::var("NSV_CASE_SCALE").ok().and_then(|s| s.parse::<u64>().ok()).unwrap_or(match self.cfg.tier {
            Tier::Quick => 6,
            Tier::Thorough => 2,
        });
        let total_cases = total_cases * scale;
        let per = (total_cases / self.cfg.nshards as u64).max(1) as u32;
        let config = Config {
            cases: per,
            rng_seed: RngSeed::Fixed(self.engine_seed(checker)),
            failure_persistence: None,
            // long streams (thousands of elements per case): every shrink step re-runs an expensive
            // check, and their cases are built from (length, class, seed), which shrinks in few steps
            max_shrink_iters: if checker.ends_with("-long") { 300 } else { 20_000 },
            max_global_rejects: 1 << 20,
            ..Config::default()
        };
        let mut runner = TestRunner::new(config);
        let failed = Cell::new(false);
        let res = runner.run(&strat, |c| {
            if !failed.get() {
                self.journal(checker, &c);
            }
            let r = guarded(check, &c);
            match r {
                Ok(info) => {
                    if !failed.get() {
                        let h = hash_of(&c);
                        self.record("proptest", checker, &c, Some(h), &info);
                    }
                    Ok(())
                }
                Err(f) => {
                    failed.set(true);
                    Err(TestCaseError::fail(format!("{}: {}", f.kind, f.msg)))
                }
            }
        });
        match res {
            Ok(()) => {}
            Err(TestError::Fail(_, minimal)) => {
                let f = match guarded(check, &minimal) {
                    Err(f) => f,
                    Ok(_) => Failure::new("flaky", "shrunk case passes on re-execution"),
                };
                self.violation(checker, &minimal, &f);
            }
            Err(TestError::Abort(reason)) => {
                self.note(format!("proptest aborted for {}: {}", checker, reason));
            }
        }
    }

    /// One case of an enumerating engine. Returns false when the shard should stop.
    pub fn enum_case<C: Serialize>(
        &self,
        checker: &'static str,
        case: &C,
        check: &dyn Fn(&C) -> CheckResult,
    ) -> bool {
        if self.cfg.journal {
            self.journal(checker, case);
        }
        match guarded(check, case) {
            Ok(info) => {
                self.record("enumeration", checker, case, None, &info);
                true
            }
            Err(f) => {
                self.violation(checker, case, &f);
                false
            }
        }
    }

    /// Cheap counting for the inner loops of enumerations that execute millions of
    /// tiny cases: the caller checks, and reports the counts in bulk.
    pub fn bulk(&self, engine: &'static str, evaluations: u64, nontrivial: u64, class: &[(&'static str, u64)]) {
        let mut st = self.stats.borrow_mut();
        st.evaluations += evaluations;
        st.nontrivial_enumerated += nontrivial;
        *st.engines.entry(engine.to_string()).or_insert(0) += evaluations;
        for (c, n) in class {
            *st.classes.entry((*c).to_string()).or_insert(0) += n;
        }
    }

    pub fn sample<C: Serialize>(&self, engine: &'static str, checker: &str, case: &C) {
        let mut st = self.stats.borrow_mut();
        if st.samples.len() < 24 {
            st.samples.push(json!({"checker": checker, "engine": engine,
                "case": abridge(serde_json::to_value(case).unwrap_or(Value::Null))}));
        }
    }
}

/// Evidence samples are illustrations (replay files hold complete cases): arrays of more than 48
/// entries are shown by their length, their first 24 and their last 8 entries.
pub fn abridge(v: Value) -> Value {
    match v {
        Value::Array(a) => {
            if a.len() > 48 {
                let n = a.len();
                let first: Vec<Value> = a.iter().take(24).cloned().map(abridge).collect();
                let last: Vec<Value> = a.iter().skip(n - 8).cloned().map(abridge).collect();
                json!({"abridged_array_of_len": n, "first_24": first, "last_8": last})
            } else {
                Value::Array(a.into_iter().map(abridge).collect())
            }
        }
        Value::Object(o) => Value::Object(o.into_iter().map(|(k, v)| (k, abridge(v))).collect()),
        other => other,
    }
}

// ---------------------------------------------------------------------------------------
// pivot scripts

#[derive(Clone, Debug, Serialize, Deserialize, Hash, PartialEq, Eq)]
pub enum Tail {
    /// always the first element
    First,
    /// always the last element
    Last,
    /// always the middle element
    Middle,
    /// pseudo-random, a pure function of the seed and the draw number
    Hash(u64),
    /// whatever the real generator drew
    Real,
}

#[derive(Clone, Debug, Serialize, Deserialize, Hash, PartialEq, Eq)]
pub struct PivotScript {
    /// draw k (k < prefix.len()) picks `prefix[k] * n >> 16`
    pub prefix: Vec<u16>,
    pub tail: Tail,
}

impl PivotScript {
    pub fn real() -> PivotScript {
        PivotScript {
            prefix: vec![],
            tail: Tail::Real,
        }
    }
    pub fn is_real(&self) -> bool {
        self.prefix.is_empty() && self.tail == Tail::Real
    }
    pub fn install(&self) {
        if self.is_real() {
            ndarray_stats::verif_hooks::set_chooser(None);
            return;
        }
        let prefix = self.prefix.clone();
        let tail = self.tail.clone();
        let mut k = 0usize;
        ndarray_stats::verif_hooks::set_chooser(Some(Box::new(move |n, drawn| {
            let r = if k < prefix.len() {
                ((prefix[k] as usize) * n) >> 16
            } else {
                match tail {
                    Tail::First => 0,
                    Tail::Last => n.saturating_sub(1),
                    Tail::Middle => n / 2,
                    Tail::Hash(s) => {
                        if n == 0 {
                            0
                        } else {
                            (splitmix64(s.wrapping_add(k as u64)) % n as u64) as usize
                        }
                    }
                    Tail::Real => drawn,
                }
            };
            k += 1;
            r
        })));
    }
    /// Runs `f` with this script installed; the chooser is removed afterwards.
    pub fn with<R>(&self, f: impl FnOnce() -> R) -> R {
        self.install();
        let r = f();
        ndarray_stats::verif_hooks::set_chooser(None);
        r
    }
}

#[derive(Clone, Debug, Serialize, Deserialize, Hash, PartialEq, Eq)]
pub enum Pivots {
    /// explicit choices, then always 0 (what the DFS produces)
    Explicit(Vec<usize>),
    Script(PivotScript),
}

impl Pivots {
    pub fn install(&self) {
        match self {
            Pivots::Explicit(p) => install_explicit(p),
            Pivots::Script(s) => s.install(),
        }
    }
    pub fn uninstall() {
        ndarray_stats::verif_hooks::set_chooser(None);
    }
    pub fn is_real(&self) -> bool {
        matches!(self, Pivots::Script(s) if s.is_real())
    }
}

pub fn pivots_strategy() -> impl Strategy<Value = Pivots> {
    use proptest::prelude::*;
    pivot_script_strategy().prop_map(Pivots::Script)
}

pub fn pivot_script_strategy() -> impl Strategy<Value = PivotScript> {
    use proptest::prelude::*;
    let tail = prop_oneof![
        2 => Just(Tail::First),
        2 => Just(Tail::Last),
        2 => Just(Tail::Middle),
        3 => any::<u64>().prop_map(Tail::Hash),
        1 => Just(Tail::Real),
    ];
    prop_oneof![
        9 => (proptest::collection::vec(any::<u16>(), 0..6), tail).prop_map(|(prefix, tail)| PivotScript { prefix, tail }),
        1 => Just(PivotScript::real()),
    ]
}

/// Explicit pivot choices followed by "always 0": what the DFS uses.
pub fn install_explicit(prefix: &[usize]) {
    let prefix = prefix.to_vec();
    let mut k = 0usize;
    ndarray_stats::verif_hooks::set_chooser(Some(Box::new(move |_n, _drawn| {
        let r = if k < prefix.len() { prefix[k] } else { 0 };
        k += 1;
        r
    })));
}

/// Depth-first enumeration of **all** pivot sequences of a deterministic computation.
/// `run(prefix)` must execute the computation with `install_explicit(prefix)` installed (the
/// check functions do that themselves from the case's `pivots` field; this function only
/// owns the tracing) and return `false` to abort.
/// Returns the number of sequences executed, or `None` if aborted.
pub fn dfs_pivots(mut run: impl FnMut(&[usize]) -> bool) -> Option<u64> {
    let mut prefix: Vec<usize> = Vec::new();
    let mut count = 0u64;
    loop {
        ndarray_stats::verif_hooks::set_tracing(true);
        let go = run(&prefix);
        let trace = ndarray_stats::verif_hooks::take_trace();
        ndarray_stats::verif_hooks::set_tracing(false);
        ndarray_stats::verif_hooks::set_chooser(None);
        count += 1;
        if !go {
            return None;
        }
        // advance: last position whose choice can still be incremented
        let mut k = trace.len();
        let mut next: Option<Vec<usize>> = None;
        while k > 0 {
            k -= 1;
            let (n, c) = trace[k];
            if c + 1 < n {
                let mut p: Vec<usize> = trace[..k].iter().map(|t| t.1).collect();
                p.push(c + 1);
                next = Some(p);
                break;
            }
        }
        match next {
            Some(p) => prefix = p,
            None => return Some(count),
        }
    }
}

// ---------------------------------------------------------------------------------------
// enumeration helpers

/// All weak-order patterns of length `n`: sequences over 0..k that use every value of 0..k
/// (k = number of distinct values). Calls `f` for each; `f` returns false to abort.
pub fn weak_orders(n: usize, f: &mut dyn FnMut(&[u8]) -> bool) -> bool {
    fn rec(pos: usize, n: usize, k: usize, cur: &mut Vec<u8>, f: &mut dyn FnMut(&[u8]) -> bool) -> bool {
        if pos == n {
            // must be surjective onto 0..k
            let mut seen = [false; 16];
            for &c in cur.iter() {
                seen[c as usize] = true;
            }
            if (0..k).all(|v| seen[v]) {
                return f(cur);
            }
            return true;
        }
        for v in 0..k {
            cur.push(v as u8);
            let go = rec(pos + 1, n, k, cur, f);
            cur.pop();
            if !go {
                return false;
            }
        }
        true
    }
    if n == 0 {
        return f(&[]);
    }
    for k in 1..=n {
        let mut cur = Vec::with_capacity(n);
        if !rec(0, n, k, &mut cur, f) {
            return false;
        }
    }
    true
}

// ---------------------------------------------------------------------------------------
// replay files

#[derive(Clone, Debug, Serialize, Deserialize)]
pub struct ReplayFile {
    pub property: String,
    pub checker: String,
    #[serde(default)]
    pub profile: String,
    #[serde(default)]
    pub seed: u64,
    pub case: Value,
    #[serde(default)]
    pub kind: String,
    #[serde(default)]
    pub message: String,
}

pub type ReplayFn = fn(&Value) -> CheckResult;

pub fn replay_with<C: for<'de> Deserialize<'de>>(v: &Value, check: &dyn Fn(&C) -> CheckResult) -> CheckResult {
    let case: C = match serde_json::from_value(v.clone()) {
        Ok(c) => c,
        Err(e) => return Err(Failure::new("replay-format", format!("cannot decode case: {}", e))),
    };
    guarded(check, &case)
}

/// Strict mode (replay of known-finding witnesses): signature-matching cases are judged
/// instead of being routed to the `excluded` counter.
pub fn strict() -> bool {
    thread_local! { static S: bool = std::env::var("NSV_STRICT").is_ok(); }
    S.with(|s| *s)
}
