//! Driver (spawns worker processes, merges their statistics, writes the evidence file,
//! prints VIOLATION / KNOWN-FINDING lines) and worker / replay entry points.

use crate::core::*;
use crate::registry;
use serde::{Deserialize, Serialize};
use serde_json::{json, Value};
use std::collections::{BTreeMap, BTreeSet, HashSet};
use std::path::{Path, PathBuf};
use std::process::{Child, Command, Stdio};
use std::time::{Duration, Instant};

pub fn root_dir() -> PathBuf {
    if let Ok(r) = std::env::var("NSV_ROOT") {
        return PathBuf::from(r);
    }
    // <root>/harness/target/<profile>/nsv
    let exe = std::env::current_exe().expect("current_exe");
    exe.ancestors().nth(4).map(|p| p.to_path_buf()).unwrap_or_else(|| PathBuf::from("/verif"))
}

fn exe_for(profile: &str) -> PathBuf {
    let exe = std::env::current_exe().expect("current_exe");
    let target = exe.parent().and_then(|p| p.parent()).expect("target dir");
    target.join(profile).join("nsv")
}

#[derive(Clone, Debug, Serialize, Deserialize)]
pub struct KnownFinding {
    pub property: String,
    pub key: String,
    /// "open" or "fixed"
    pub status: String,
    pub witness: String,
    pub text: String,
    #[serde(default)]
    pub commit: Option<String>,
    #[serde(default)]
    pub signature: Option<Value>,
}

pub fn load_known(root: &Path) -> Vec<KnownFinding> {
    let p = root.join("known_findings.json");
    match std::fs::read(&p) {
        Ok(b) => serde_json::from_slice(&b).unwrap_or_else(|e| {
            eprintln!("nsv: cannot parse {}: {}", p.display(), e);
            std::process::exit(2)
        }),
        Err(_) => vec![],
    }
}

// ---------------------------------------------------------------------------------------
// worker

pub fn worker_main(args: &[String]) -> i32 {
    // worker <ID> <tier> <shard> <nshards> <seed> <statsfile>
    if args.len() < 6 {
        eprintln!("usage: nsv worker <ID> <quick|thorough> <shard> <nshards> <seed> <statsfile>");
        return 2;
    }
    let prop = match registry::find(&args[0]) {
        Some(p) => p,
        None => {
            eprintln!("nsv: unknown property {}", args[0]);
            return 2;
        }
    };
    let tier = if args[1] == "thorough" { Tier::Thorough } else { Tier::Quick };
    let root = root_dir();
    let cfg = Cfg {
        prop: args[0].clone(),
        tier,
        shard: args[2].parse().unwrap_or(0),
        nshards: args[3].parse().unwrap_or(1),
        seed: args[4].parse().unwrap_or(0),
        profile: profile_name().to_string(),
        journal: std::env::var("NSV_JOURNAL").is_ok(),
        out_dir: root.join("out").to_string_lossy().to_string(),
    };
    install_quiet_panic_hook();
    let ctx = Ctx::new(cfg);
    (prop.run)(&ctx);
    let stats = ctx.finish();
    let bytes = serde_json::to_vec(&stats).expect("serialise stats");
    if let Err(e) = std::fs::write(&args[5], bytes) {
        eprintln!("nsv worker: cannot write {}: {}", args[5], e);
        return 2;
    }
    0
}

// ---------------------------------------------------------------------------------------
// replay

/// Exit code: 0 = the case passes, 1 = it still violates (prints the reason), 2 = unusable file.
pub fn replay_main(file: &str, quiet: bool) -> i32 {
    let bytes = match std::fs::read(file) {
        Ok(b) => b,
        Err(e) => {
            eprintln!("nsv replay: cannot read {}: {}", file, e);
            return 2;
        }
    };
    let rf: ReplayFile = match serde_json::from_slice(&bytes) {
        Ok(r) => r,
        Err(e) => {
            eprintln!("nsv replay: cannot parse {}: {}", file, e);
            return 2;
        }
    };
    let prop = match registry::find(&rf.property) {
        Some(p) => p,
        None => {
            eprintln!("nsv replay: unknown property {}", rf.property);
            return 2;
        }
    };
    install_quiet_panic_hook();
    let reps = (prop.replayers)();
    let f = match reps.iter().find(|(n, _)| *n == rf.checker) {
        Some((_, f)) => *f,
        None => {
            eprintln!("nsv replay: property {} has no checker {}", rf.property, rf.checker);
            return 2;
        }
    };
    match f(&rf.case) {
        Ok(info) => {
            if !quiet {
                println!(
                    "replay {} [{}]: passes{}",
                    file,
                    profile_name(),
                    if info.excluded { " (excluded by a known-finding signature; run with NSV_STRICT=1 to judge it)" } else { "" }
                );
            }
            0
        }
        Err(fl) => {
            if fl.kind == "replay-format" {
                eprintln!("nsv replay: {}", fl.msg);
                return 2;
            }
            println!("replay {} [{}]: FAILS kind={} :: {}", file, profile_name(), fl.kind, fl.msg);
            1
        }
    }
}

// ---------------------------------------------------------------------------------------
// driver

struct Job {
    profile: String,
    shard: u32,
    stats_file: PathBuf,
    child: Option<Child>,
    done: bool,
    status: Option<std::process::ExitStatus>,
    journal: bool,
}

fn spawn_worker(id: &str, tier: Tier, profile: &str, shard: u32, nshards: u32, seed: u64, stats_file: &Path, journal: bool, root: &Path) -> std::io::Result<Child> {
    let mut cmd = Command::new(exe_for(profile));
    cmd.arg("worker")
        .arg(id)
        .arg(tier.name())
        .arg(shard.to_string())
        .arg(nshards.to_string())
        .arg(seed.to_string())
        .arg(stats_file)
        .env("NSV_ROOT", root)
        .stdin(Stdio::null());
    // stderr of the worker goes to a file next to its statistics (inspected when it dies)
    if let Ok(f) = std::fs::File::create(stats_file.with_extension("err")) {
        cmd.stderr(Stdio::from(f));
    }
    if journal {
        cmd.env("NSV_JOURNAL", "1");
    }
    cmd.spawn()
}

/// Runs a replay file under one profile in a child process. Returns (exit code or None when
/// killed by a signal, first output line).
fn replay_child(profile: &str, file: &Path, strict: bool, root: &Path) -> (Option<i32>, String) {
    let mut cmd = Command::new(exe_for(profile));
    cmd.arg("replay").arg(file).env("NSV_ROOT", root).stdin(Stdio::null());
    if strict {
        cmd.env("NSV_STRICT", "1");
    }
    match cmd.output() {
        Ok(o) => {
            let out = String::from_utf8_lossy(&o.stdout).lines().next().unwrap_or("").to_string();
            (o.status.code(), out)
        }
        Err(e) => (Some(2), format!("cannot run replay: {}", e)),
    }
}

pub fn drive_main(id: &str, tier_arg: &str) -> i32 {
    let t0 = Instant::now();
    let root = root_dir();
    let prop = match registry::find(id) {
        Some(p) => p,
        None => {
            eprintln!("nsv: unknown property {}", id);
            return 2;
        }
    };
    let tier_s = std::env::var("VERIF_TIER").ok().filter(|s| s == "quick" || s == "thorough").unwrap_or_else(|| tier_arg.to_string());
    let tier = if tier_s == "thorough" { Tier::Thorough } else { Tier::Quick };
    let seed: u64 = std::env::var("VERIF_SEED").ok().and_then(|s| s.trim().parse::<i128>().ok()).map(|v| v as u64).unwrap_or(0);
    let out = root.join("out");
    let _ = std::fs::create_dir_all(out.join("shards"));
    let _ = std::fs::create_dir_all(out.join("replay"));
    let profiles: Vec<String> = prop.profiles(tier).iter().map(|s| s.to_string()).collect();
    for p in &profiles {
        if !exe_for(p).exists() {
            eprintln!("nsv: missing binary for profile {} ({}); run ./setup.sh", p, exe_for(p).display());
            return 2;
        }
    }

    let mut violation_lines: Vec<String> = vec![];
    let mut known_lines: Vec<String> = vec![];
    let mut n_violations = 0i64;

    // 1. replay tier: committed regression inputs and known-finding witnesses
    let known = load_known(&root);
    let mut replayed = 0u64;
    let mut witness_files: BTreeSet<PathBuf> = BTreeSet::new();
    for k in known.iter().filter(|k| k.property == id) {
        let wf = root.join(&k.witness);
        witness_files.insert(wf.clone());
        let mut fails = false;
        let mut detail = String::new();
        for p in &profiles {
            let (code, line) = replay_child(p, &wf, true, &root);
            replayed += 1;
            match code {
                Some(0) => {}
                Some(2) => {
                    eprintln!("nsv: witness {} unusable under {}: {}", wf.display(), p, line);
                    return 2;
                }
                _ => {
                    fails = true;
                    detail = line;
                }
            }
        }
        if fails {
            if k.status == "open" {
                known_lines.push(format!("KNOWN-FINDING: property={} {} [{}] witness={}", id, k.text, k.key, k.witness));
            } else {
                n_violations += 1;
                violation_lines.push(format!("VIOLATION property={} replay={}", id, wf.display()));
                eprintln!("nsv: fixed finding {} has returned: {}", k.key, detail);
            }
        }
    }
    if let Ok(rd) = std::fs::read_dir(root.join("replays")) {
        let mut files: Vec<PathBuf> = rd.filter_map(|e| e.ok()).map(|e| e.path()).filter(|p| p.file_name().and_then(|n| n.to_str()).map(|n| n.starts_with(&format!("{}-", id)) && n.ends_with(".json")).unwrap_or(false)).collect();
        files.sort();
        for f in files {
            if witness_files.contains(&f) {
                continue;
            }
            for p in &profiles {
                let (code, line) = replay_child(p, &f, false, &root);
                replayed += 1;
                match code {
                    Some(0) => {}
                    Some(2) => {
                        eprintln!("nsv: replay file {} unusable: {}", f.display(), line);
                        return 2;
                    }
                    _ => {
                        n_violations += 1;
                        violation_lines.push(format!("VIOLATION property={} replay={}", id, f.display()));
                        eprintln!("nsv: regression input fails under {}: {}", p, line);
                        break;
                    }
                }
            }
        }
    }

    // 2. generated-input search in worker processes
    let nshards = prop.shards(tier);
    let mut jobs: Vec<Job> = vec![];
    for p in &profiles {
        for s in 0..nshards {
            jobs.push(Job {
                profile: p.clone(),
                shard: s,
                stats_file: out.join("shards").join(format!("{}-{}-{}-{}.json", id, tier.name(), p, s)),
                child: None,
                done: false,
                status: None,
                journal: false,
            });
        }
    }
    for j in &jobs {
        let _ = std::fs::remove_file(&j.stats_file);
    }
    let max_par: usize = std::env::var("NSV_JOBS").ok().and_then(|s| s.parse().ok()).unwrap_or(16);
    let budget = Duration::from_secs(std::env::var("NSV_WATCHDOG_S").ok().and_then(|s| s.parse().ok()).unwrap_or(tier.pick(1500, 6 * 3600)));
    let mut inconclusive: Option<String> = None;
    loop {
        let running = jobs.iter().filter(|j| j.child.is_some()).count();
        let mut free = max_par.saturating_sub(running);
        for j in jobs.iter_mut() {
            if free == 0 {
                break;
            }
            if !j.done && j.child.is_none() {
                match spawn_worker(id, tier, &j.profile, j.shard, nshards, seed, &j.stats_file, j.journal, &root) {
                    Ok(c) => {
                        j.child = Some(c);
                        free -= 1;
                    }
                    Err(e) => {
                        eprintln!("nsv: cannot spawn worker: {}", e);
                        return 2;
                    }
                }
            }
        }
        let mut any_running = false;
        for j in jobs.iter_mut() {
            if let Some(c) = j.child.as_mut() {
                match c.try_wait() {
                    Ok(Some(st)) => {
                        j.child = None;
                        j.status = Some(st);
                        use std::os::unix::process::ExitStatusExt;
                        if st.signal().is_some() && !j.journal {
                            // killed by a signal: re-run this shard in journal mode
                            j.journal = true;
                        } else {
                            j.done = true;
                        }
                    }
                    Ok(None) => any_running = true,
                    Err(_) => {
                        j.child = None;
                        j.done = true;
                    }
                }
            }
        }
        if jobs.iter().all(|j| j.done) {
            break;
        }
        if t0.elapsed() > budget {
            for j in jobs.iter_mut() {
                if let Some(c) = j.child.as_mut() {
                    let _ = c.kill();
                    let _ = c.wait();
                }
            }
            inconclusive = Some(format!("watchdog: workers still running after {:?}", budget));
            break;
        }
        if any_running || jobs.iter().any(|j| !j.done) {
            std::thread::sleep(Duration::from_millis(20));
        }
    }
    if let Some(why) = inconclusive {
        eprintln!("nsv: INCONCLUSIVE property={} {}", id, why);
        return 2;
    }

    // 3. merge
    let mut merged = Stats::default();
    let mut hashes: HashSet<u64> = HashSet::new();
    let mut per_profile: BTreeMap<String, u64> = BTreeMap::new();
    let mut exhaustive_by_profile: BTreeMap<String, BTreeMap<String, u32>> = BTreeMap::new();
    let first_profile = profiles[0].clone();
    for j in &jobs {
        use std::os::unix::process::ExitStatusExt;
        let st = j.status.expect("status");
        let errtxt = std::fs::read_to_string(j.stats_file.with_extension("err")).unwrap_or_default();
        let _ = std::fs::remove_file(j.stats_file.with_extension("err"));
        if st.signal().is_some() && errtxt.contains("memory allocation of") {
            // the harness (or the code under test) ran out of memory: a resource limit, not a verdict
            eprintln!("nsv: INCONCLUSIVE property={} worker {}/{} aborted on a failed memory allocation", id, j.profile, j.shard);
            return 2;
        }
        if !errtxt.trim().is_empty() && st.code() != Some(0) {
            let tail: Vec<&str> = errtxt.lines().rev().take(5).collect();
            eprintln!("nsv: worker {}/{} stderr: {}", j.profile, j.shard, tail.into_iter().rev().collect::<Vec<_>>().join(" | "));
        }
        if let Some(sig) = st.signal() {
            // journal re-run also died: the journal holds the fatal case
            let jf = out.join(format!("journal-{}-{}-{}.json", id, j.profile, j.shard));
            let rp = out.join("replay").join(format!("{}-signal{}-{}-{}.json", id, sig, j.profile, j.shard));
            if std::fs::copy(&jf, &rp).is_ok() {
                n_violations += 1;
                violation_lines.push(format!("VIOLATION property={} replay={}", id, rp.display()));
                eprintln!("nsv: worker {}/{} killed by signal {} while executing the journaled case", j.profile, j.shard, sig);
                continue;
            } else {
                eprintln!("nsv: INCONCLUSIVE property={} worker {}/{} killed by signal {} and no journal exists", id, j.profile, j.shard, sig);
                return 2;
            }
        }
        if st.code() != Some(0) {
            eprintln!("nsv: INCONCLUSIVE property={} worker {}/{} exited with {:?}", id, j.profile, j.shard, st.code());
            return 2;
        }
        let s: Stats = match std::fs::read(&j.stats_file).ok().and_then(|b| serde_json::from_slice(&b).ok()) {
            Some(s) => s,
            None => {
                eprintln!("nsv: INCONCLUSIVE property={} no statistics from worker {}/{}", id, j.profile, j.shard);
                return 2;
            }
        };
        merged.evaluations += s.evaluations;
        *per_profile.entry(j.profile.clone()).or_insert(0) += s.evaluations;
        for h in &s.nontrivial_hashes {
            hashes.insert(*h);
        }
        if j.profile == first_profile {
            merged.nontrivial_enumerated += s.nontrivial_enumerated;
        }
        for (k, v) in &s.classes {
            *merged.classes.entry(k.clone()).or_insert(0) += v;
        }
        for (k, v) in &s.engines {
            *merged.engines.entry(k.clone()).or_insert(0) += v;
        }
        merged.excluded_by_known_finding += s.excluded_by_known_finding;
        merged.discarded += s.discarded;
        if j.profile == first_profile && j.shard == 0 {
            merged.samples.extend(s.samples.iter().cloned());
        }
        for e in &s.exhaustive {
            *exhaustive_by_profile.entry(j.profile.clone()).or_default().entry(e.clone()).or_insert(0) += 1;
        }
        for n in &s.notes {
            if !merged.notes.contains(n) {
                merged.notes.push(n.clone());
            }
        }
        for v in &s.violations {
            n_violations += 1;
            violation_lines.push(format!("VIOLATION property={} replay={}", id, v.replay));
            eprintln!("nsv: [{} shard {}] {} kind={} :: {}", j.profile, j.shard, v.checker, v.kind, v.msg);
            merged.violations.push(v.clone());
        }
        let _ = std::fs::remove_file(&j.stats_file);
    }
    // an enumerated space counts as complete when every shard of a profile finished it
    let mut exhaustive_spaces: Vec<String> = vec![];
    for (p, m) in &exhaustive_by_profile {
        for (desc, n) in m {
            if *n == nshards {
                exhaustive_spaces.push(format!("[{}] {}", p, desc));
            }
        }
    }
    if merged.samples.is_empty() {
        // fall back to any shard's samples
        merged.samples.push(json!({"note": "no non-trivial sample was captured by shard 0"}));
    }
    // 2b. coverage-guided campaigns (thorough tier only)
    let mut fuzz_report: Vec<Value> = vec![];
    if tier == Tier::Thorough && std::env::var("NSV_NO_FUZZ").is_err() {
        for target in fuzz_targets_for(id) {
            let fr = run_fuzz(id, target, seed, &root);
            merged.evaluations += fr.execs;
            *merged.engines.entry(format!("libfuzzer:{}", target)).or_insert(0) += fr.execs;
            for v in &fr.violations {
                n_violations += 1;
                violation_lines.push(format!("VIOLATION property={} replay={}", id, v));
            }
            fuzz_report.push(json!({"target": target, "executions": fr.execs, "status": fr.status, "violations": fr.violations.len()}));
        }
    }
    let distinct = hashes.len() as u64 + merged.nontrivial_enumerated;
    let wall = t0.elapsed().as_secs_f64();

    // 4. evidence
    let coverage = json!({
        "evaluations": merged.evaluations + replayed,
        "distinct_nontrivial": distinct,
        "rule": prop.rule,
        "samples": merged.samples,
        "exhaustive": !exhaustive_spaces.is_empty(),
        "exhaustive_spaces": exhaustive_spaces,
        "distinct_nontrivial_randomised_by_hash": hashes.len(),
        "distinct_nontrivial_enumerated_by_construction": merged.nontrivial_enumerated,
        "evaluations_per_profile": per_profile,
        "engines": merged.engines,
        "classes": merged.classes,
        "excluded_by_known_finding": merged.excluded_by_known_finding,
        "discarded": merged.discarded,
        "replay_tier_executions": replayed,
        "known_findings_reported": known_lines,
        "libfuzzer_campaigns": fuzz_report,
        "notes": merged.notes,
        "profiles": profiles,
        "shards_per_profile": nshards,
    });
    let mut assumptions: Vec<String> = prop.assumptions.iter().map(|s| s.to_string()).collect();
    assumptions.push("absence is only established inside the enumerated bounds; beyond them the statement is 'no counterexample among the generated cases'".to_string());
    let evidence = json!({
        "property_id": id,
        "tier": tier.name(),
        "seed": seed as i64,
        "level": "exploration",
        "coverage": coverage,
        "assumptions": assumptions,
        "wall_s": wall,
        "violations": n_violations,
    });
    let evdir = root.join("evidence");
    let _ = std::fs::create_dir_all(&evdir);
    let evfile = evdir.join(format!("{}.json", id));
    if let Err(e) = std::fs::write(&evfile, serde_json::to_string_pretty(&evidence).unwrap()) {
        eprintln!("nsv: cannot write {}: {}", evfile.display(), e);
        return 2;
    }

    // 5. report
    for l in &known_lines {
        println!("{}", l);
    }
    let mut seen = BTreeSet::new();
    for l in &violation_lines {
        if seen.insert(l.clone()) {
            println!("{}", l);
        }
    }
    println!(
        "{} {} seed={} : {} evaluations ({} distinct non-trivial), {} excluded by known findings, {} violations, {:.1}s",
        id,
        tier.name(),
        seed,
        merged.evaluations + replayed,
        distinct,
        merged.excluded_by_known_finding,
        n_violations,
        wall
    );
    if n_violations > 0 {
        1
    } else {
        0
    }
}

// ---------------------------------------------------------------------------------------
// libFuzzer campaigns

pub fn fuzz_targets_for(id: &str) -> Vec<&'static str> {
    match id {
        "C02" | "C15" | "C16" => vec!["sel"],
        "C03" => vec!["sel", "nan"],
        "C04" | "C14" => vec!["nan"],
        "C01" | "C18" | "C19" => vec!["quant"],
        "C11" | "C12" | "C13" => vec!["hist"],
        _ => vec![],
    }
}

pub struct FuzzResult {
    pub execs: u64,
    pub violations: Vec<String>,
    pub status: String,
}

/// Runs one campaign: fixed number of runs, fixed seed, fresh working corpus seeded from the
/// committed one. A failure of the tooling itself is reported in `status`, never as a violation.
pub fn run_fuzz(prop: &str, target: &str, seed: u64, root: &Path) -> FuzzResult {
    let fuzz_dir = root.join("fuzz");
    let work = root.join("out").join("fuzz").join(format!("{}-{}", prop, target));
    let _ = std::fs::remove_dir_all(&work);
    let corpus = work.join("corpus");
    let artifacts = work.join("artifacts");
    let _ = std::fs::create_dir_all(&corpus);
    let _ = std::fs::create_dir_all(&artifacts);
    // an empty input plus a few pseudo-random seeds of full length (libFuzzer ramps length slowly)
    let _ = std::fs::write(corpus.join("empty"), b"");
    for k in 0..8u64 {
        let mut bytes = Vec::with_capacity(256);
        let mut x = splitmix64(seed.wrapping_add(k * 977));
        for _ in 0..256 {
            x = splitmix64(x);
            bytes.push((x >> 24) as u8);
        }
        let _ = std::fs::write(corpus.join(format!("seed{}", k)), bytes);
    }
    let committed = fuzz_dir.join("corpus").join(target);
    let runs: u64 = std::env::var("NSV_FUZZ_RUNS").ok().and_then(|s| s.parse().ok()).unwrap_or(match target {
        "sel" => 1_500_000,
        "nan" => 800_000,
        "hist" => 600_000,
        _ => 400_000,
    });
    let lf_seed = (splitmix64(seed ^ hash_str(prop)) % 0x7fff_fffe) + 1;
    let mut cmd = Command::new("cargo");
    cmd.current_dir(&fuzz_dir)
        .arg("+nightly")
        .arg("fuzz")
        .arg("run")
        .arg("--fuzz-dir")
        .arg(&fuzz_dir)
        .arg(target)
        .arg(&corpus);
    if committed.is_dir() {
        cmd.arg(&committed);
    }
    cmd.arg("--")
        .arg(format!("-runs={}", runs))
        .arg(format!("-seed={}", lf_seed))
        .arg("-len_control=0")
        .arg("-max_len=512")
        .arg("-max_total_time=1500")
        .arg("-print_final_stats=1")
        .arg(format!("-artifact_prefix={}/", artifacts.display()))
        .env("NSV_PROP", prop)
        .env("NSV_ROOT", root)
        .env("CARGO_NET_OFFLINE", "true")
        .stdin(Stdio::null());
    let out = match cmd.output() {
        Ok(o) => o,
        Err(e) => return FuzzResult { execs: 0, violations: vec![], status: format!("cargo fuzz could not be started: {}", e) },
    };
    let text = format!("{}{}", String::from_utf8_lossy(&out.stdout), String::from_utf8_lossy(&out.stderr));
    let mut violations = vec![];
    for l in text.lines() {
        if let Some(pos) = l.find("NSV-FUZZ-VIOLATION") {
            if let Some(r) = l[pos..].split("replay=").nth(1) {
                violations.push(r.split_whitespace().next().unwrap_or("").to_string());
            }
        }
    }
    let execs = text
        .lines()
        .filter_map(|l| l.strip_prefix("stat::number_of_executed_units:"))
        .filter_map(|v| v.trim().parse::<u64>().ok())
        .last()
        .unwrap_or(0);
    let status = if out.status.success() {
        "completed".to_string()
    } else if !violations.is_empty() {
        "stopped at a property violation".to_string()
    } else if text.contains("ERROR: AddressSanitizer") || text.contains("ERROR: libFuzzer: deadly signal") {
        // a memory-safety report or crash that is not one of our oracle aborts: the artifact is the reproducer
        let art = std::fs::read_dir(&artifacts).ok().and_then(|rd| rd.filter_map(|e| e.ok()).map(|e| e.path()).next());
        if let Some(a) = art {
            violations.push(a.to_string_lossy().to_string());
        }
        "sanitizer / crash report".to_string()
    } else {
        // tooling problem (nightly or cargo-fuzz missing, build failure): inconclusive for this engine only
        let tail: Vec<&str> = text.lines().rev().take(3).collect();
        format!("not run: {}", tail.into_iter().rev().collect::<Vec<_>>().join(" | "))
    };
    FuzzResult { execs, violations, status }
}
