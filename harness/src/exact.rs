//! Exact dyadic arithmetic: every finite f32/f64 is `m * 2^e` with integer `m`, so sums,
//! differences and products of inputs are computed exactly with big integers. Quotients and
//! square roots are produced to >= 100 bits and rounded once.

use num_bigint::{BigInt, Sign};
use num_traits::{One, Signed, ToPrimitive, Zero};
use std::cmp::Ordering;

#[derive(Clone, Debug)]
pub struct Dy {
    pub m: BigInt,
    pub e: i64,
}

impl Dy {
    pub fn zero() -> Dy {
        Dy { m: BigInt::zero(), e: 0 }
    }
    pub fn one() -> Dy {
        Dy { m: BigInt::one(), e: 0 }
    }
    pub fn from_i128(v: i128) -> Dy {
        Dy { m: BigInt::from(v), e: 0 }
    }
    pub fn from_u64(v: u64) -> Dy {
        Dy { m: BigInt::from(v), e: 0 }
    }
    pub fn pow2(k: i64) -> Dy {
        Dy { m: BigInt::one(), e: k }
    }
    /// Exact conversion; panics on NaN / infinity.
    pub fn from_f64(x: f64) -> Dy {
        assert!(x.is_finite(), "Dy::from_f64({})", x);
        if x == 0.0 {
            return Dy::zero();
        }
        let bits = x.to_bits();
        let neg = bits >> 63 == 1;
        let exp = ((bits >> 52) & 0x7ff) as i64;
        let frac = bits & ((1u64 << 52) - 1);
        let (m, e) = if exp == 0 { (frac, -1074) } else { (frac | (1u64 << 52), exp - 1075) };
        let tz = m.trailing_zeros() as i64;
        let mut b = BigInt::from(m >> tz);
        if neg {
            b = -b;
        }
        Dy { m: b, e: e + tz }
    }
    pub fn from_f32(x: f32) -> Dy {
        Dy::from_f64(x as f64)
    }
    pub fn is_zero(&self) -> bool {
        self.m.is_zero()
    }
    pub fn is_negative(&self) -> bool {
        self.m.is_negative()
    }
    pub fn neg(&self) -> Dy {
        Dy { m: -self.m.clone(), e: self.e }
    }
    pub fn abs(&self) -> Dy {
        Dy { m: self.m.abs(), e: self.e }
    }
    fn align(a: &Dy, b: &Dy) -> (BigInt, BigInt, i64) {
        if a.e <= b.e {
            (a.m.clone(), b.m.clone() << ((b.e - a.e) as usize), a.e)
        } else {
            (a.m.clone() << ((a.e - b.e) as usize), b.m.clone(), b.e)
        }
    }
    pub fn add(&self, o: &Dy) -> Dy {
        if self.is_zero() {
            return o.clone();
        }
        if o.is_zero() {
            return self.clone();
        }
        let (a, b, e) = Dy::align(self, o);
        Dy { m: a + b, e }
    }
    pub fn sub(&self, o: &Dy) -> Dy {
        self.add(&o.neg())
    }
    pub fn mul(&self, o: &Dy) -> Dy {
        if self.is_zero() || o.is_zero() {
            return Dy::zero();
        }
        Dy { m: &self.m * &o.m, e: self.e + o.e }
    }
    pub fn mul_i(&self, k: i128) -> Dy {
        Dy { m: &self.m * BigInt::from(k), e: self.e }
    }
    pub fn scale2(&self, k: i64) -> Dy {
        Dy { m: self.m.clone(), e: self.e + k }
    }
    pub fn sq(&self) -> Dy {
        self.mul(self)
    }
    pub fn powi(&self, p: u32) -> Dy {
        let mut r = Dy::one();
        for _ in 0..p {
            r = r.mul(self);
        }
        r
    }
    pub fn cmp(&self, o: &Dy) -> Ordering {
        let (a, b, _) = Dy::align(self, o);
        a.cmp(&b)
    }
    pub fn le(&self, o: &Dy) -> bool {
        self.cmp(o) != Ordering::Greater
    }
    pub fn lt(&self, o: &Dy) -> bool {
        self.cmp(o) == Ordering::Less
    }
    pub fn max(&self, o: &Dy) -> Dy {
        if self.cmp(o) == Ordering::Less {
            o.clone()
        } else {
            self.clone()
        }
    }
    pub fn min(&self, o: &Dy) -> Dy {
        if self.cmp(o) == Ordering::Greater {
            o.clone()
        } else {
            self.clone()
        }
    }
    /// Nearest-ish f64 (error < 1 ulp; may overflow to infinity / underflow to 0).
    pub fn to_f64(&self) -> f64 {
        if self.is_zero() {
            return 0.0;
        }
        let bits = self.m.bits() as i64;
        // keep 64 significant bits
        let shift = bits - 64;
        let (top, e) = if shift > 0 { (&self.m >> (shift as usize), self.e + shift) } else { (self.m.clone(), self.e) };
        let t = top.to_f64().unwrap_or(0.0);
        scalbn(t, e)
    }
}

fn scalbn(mut x: f64, mut e: i64) -> f64 {
    while e > 1000 {
        x *= pow2(1000);
        e -= 1000;
        if !x.is_finite() {
            return x;
        }
    }
    while e < -1000 {
        x *= pow2(-1000);
        e += 1000;
        if x == 0.0 {
            return x;
        }
    }
    x * pow2(e)
}

/// num / den as f64 (relative error < 2^-60 before the final rounding). den != 0.
pub fn ratio(num: &Dy, den: &Dy) -> f64 {
    assert!(!den.is_zero(), "ratio: zero denominator");
    if num.is_zero() {
        return 0.0;
    }
    // scale numerator so the integer quotient has >= 100 bits
    let nb = num.m.bits() as i64;
    let db = den.m.bits() as i64;
    let k = (100 + db - nb).max(0);
    let n = num.m.clone() << (k as usize);
    let q = n / &den.m;
    Dy { m: q, e: num.e - den.e - k }.to_f64()
}

/// A non-negative rational num/den (den > 0) as a pair, for comparisons `|x| <= bound`.
#[derive(Clone, Debug)]
pub struct Rat {
    pub n: Dy,
    pub d: Dy,
}

impl Rat {
    pub fn new(n: Dy, d: Dy) -> Rat {
        assert!(!d.is_zero());
        if d.is_negative() {
            Rat { n: n.neg(), d: d.neg() }
        } else {
            Rat { n, d }
        }
    }
    pub fn from_dy(x: Dy) -> Rat {
        Rat { n: x, d: Dy::one() }
    }
    pub fn to_f64(&self) -> f64 {
        ratio(&self.n, &self.d)
    }
    pub fn sub_dy(&self, x: &Dy) -> Rat {
        Rat { n: self.n.sub(&x.mul(&self.d)), d: self.d.clone() }
    }
    pub fn add(&self, o: &Rat) -> Rat {
        Rat { n: self.n.mul(&o.d).add(&o.n.mul(&self.d)), d: self.d.mul(&o.d) }
    }
    pub fn sub(&self, o: &Rat) -> Rat {
        Rat { n: self.n.mul(&o.d).sub(&o.n.mul(&self.d)), d: self.d.mul(&o.d) }
    }
    pub fn mul(&self, o: &Rat) -> Rat {
        Rat { n: self.n.mul(&o.n), d: self.d.mul(&o.d) }
    }
    pub fn div(&self, o: &Rat) -> Rat {
        Rat::new(self.n.mul(&o.d), self.d.mul(&o.n))
    }
    pub fn abs(&self) -> Rat {
        Rat { n: self.n.abs(), d: self.d.clone() }
    }
    pub fn is_zero(&self) -> bool {
        self.n.is_zero()
    }
    pub fn is_negative(&self) -> bool {
        self.n.is_negative()
    }
}

/// Unit in the last place of a finite f64 magnitude (spacing of floats at |x|).
pub fn ulp64(x: f64) -> f64 {
    let x = x.abs();
    if !x.is_finite() {
        return f64::INFINITY;
    }
    if x < f64::MIN_POSITIVE {
        return 5e-324;
    }
    // 2^(e-52), built from bits (powi would underflow through 1/2^1070 = 1/inf)
    let e = ((x.to_bits() >> 52) & 0x7ff) as i64 - 1023;
    pow2(e - 52)
}

/// 2^k as f64 for any k in the double range (subnormals included), exactly.
pub fn pow2(k: i64) -> f64 {
    if k > 1023 {
        f64::INFINITY
    } else if k >= -1022 {
        f64::from_bits(((k + 1023) as u64) << 52)
    } else if k >= -1074 {
        f64::from_bits(1u64 << (k + 1074))
    } else {
        0.0
    }
}

pub fn ulp32(x: f32) -> f64 {
    let x = x.abs();
    if !x.is_finite() {
        return f64::INFINITY;
    }
    if x < f32::MIN_POSITIVE {
        return pow2(-149);
    }
    let e = ((x.to_bits() >> 23) & 0xff) as i64 - 127;
    pow2(e - 23)
}

/// Square root of a non-negative rational as f64 (via f64 sqrt of a 2^-60-accurate quotient:
/// relative error <= 2 ulp, charged to the budgets as `4u`).
pub fn sqrt_ratio(num: &Dy, den: &Dy) -> f64 {
    ratio(num, den).sqrt()
}

#[allow(dead_code)]
fn _sign(_: Sign) {}

#[cfg(test)]
mod tests {
    use super::*;
    #[test]
    fn roundtrip() {
        for &x in &[1.0, -0.5, 1e300, 5e-324, 0.1, 123456.789e-200] {
            assert_eq!(Dy::from_f64(x).to_f64(), x);
        }
        assert_eq!(ratio(&Dy::from_f64(1.0), &Dy::from_f64(3.0)), 1.0 / 3.0);
        assert_eq!(ulp64(3.7e-307), pow2(-1070));
        assert_eq!(ulp64(1.0), 2f64.powi(-52));
        assert_eq!(ulp64(1e-320), 5e-324);
        assert_eq!(pow2(-1074), 5e-324);
        assert_eq!(pow2(10), 1024.0);
    }
}
