//! Byte decoders for the libFuzzer targets: bytes -> the same case structs the proptest
//! strategies produce -> the same check functions. `NSV_PROP` selects which property's
//! assertions are armed, so a campaign for one property never reports another's.

use crate::core::*;
use crate::gen::*;
use crate::layout::LayoutSpec;
use crate::props::hist::*;
use crate::props::nan::*;
use crate::props::order::OrderCase;
use crate::props::quant::QCase;
use crate::props::sel::*;
use crate::props::skip::*;
use crate::qoracle::*;
use arbitrary::{Result as AResult, Unstructured};
use serde::Serialize;
use std::sync::Once;

fn small(u: &mut Unstructured<'_>, max: usize) -> AResult<usize> {
    Ok(u.int_in_range(0..=max as u32)? as usize)
}

fn pivots(u: &mut Unstructured<'_>) -> AResult<Pivots> {
    let k = small(u, 4)?;
    let mut prefix = vec![];
    for _ in 0..k {
        prefix.push(u.arbitrary::<u16>()?);
    }
    let tail = match u.int_in_range(0..=4u8)? {
        0 => Tail::First,
        1 => Tail::Last,
        2 => Tail::Middle,
        3 => Tail::Hash(u.arbitrary::<u8>()? as u64),
        _ => Tail::Real,
    };
    Ok(Pivots::Script(PivotScript { prefix, tail }))
}

fn stride(u: &mut Unstructured<'_>) -> AResult<isize> {
    Ok(*u.choose(&[1isize, 1, 2, 3, -1, -2, -3])?)
}

fn layout(u: &mut Unstructured<'_>, nd: usize) -> AResult<LayoutSpec> {
    let mut perm: Vec<usize> = (0..nd).collect();
    for i in (1..nd).rev() {
        let j = small(u, i)?;
        perm.swap(i, j);
    }
    let mut l = LayoutSpec::c_order(nd);
    l.perm = perm;
    for k in 0..nd {
        l.steps[k] = 1 + small(u, 2)?;
        l.rev[k] = u.arbitrary::<bool>()?;
        l.pad_front[k] = small(u, 2)?;
        l.pad_back[k] = small(u, 2)?;
    }
    Ok(l)
}

fn shape(u: &mut Unstructured<'_>, max_nd: usize, max_axis: usize, max_total: usize) -> AResult<Vec<usize>> {
    let nd = 1 + small(u, max_nd - 1)?;
    let mut s = vec![];
    let mut total = 1usize;
    for _ in 0..nd {
        let mut n = 1 + small(u, max_axis - 1)?;
        while total * n > max_total && n > 1 {
            n -= 1;
        }
        total *= n;
        s.push(n);
    }
    Ok(s)
}

fn qspec(u: &mut Unstructured<'_>) -> AResult<QSpec> {
    Ok(match u.int_in_range(0..=6u8)? {
        0 => QSpec::Zero,
        1 => QSpec::One,
        2 | 3 => QSpec::Grid { sel: u.arbitrary()?, nudge: u.int_in_range(-2..=2i8)? },
        4 => QSpec::Half { sel: u.arbitrary()?, nudge: u.int_in_range(-2..=2i8)? },
        5 => *u.choose(&[QSpec::Tiny, QSpec::AlmostOne])?,
        _ => QSpec::Uniform(((u.arbitrary::<u32>()? as f64) / u32::MAX as f64).to_bits()),
    })
}

fn strat(u: &mut Unstructured<'_>) -> AResult<Strat> {
    Ok(*u.choose(&STRATS)?)
}

// ---------------------------------------------------------------------------------------

#[derive(Serialize)]
enum AnyCase {
    Part(PartCase),
    Sel(SelCase),
    Bulk(BulkCase),
    Remove(RemoveCase),
    Lanes(LanesCase),
    Skip(SkipCase),
    Quant(QCase),
    Order(OrderCase),
    Edges(EdgeCase),
    Grid(GridCase),
    Hist(HistCase),
    Strat(StratCase),
}

fn dec_sel(u: &mut Unstructured<'_>, prop: &str) -> AResult<AnyCase> {
    let n = small(u, 24)?;
    let mut values = vec![];
    for _ in 0..n {
        values.push((u.arbitrary::<u8>()? % 8) as i64);
    }
    let st = stride(u)?;
    let offset = small(u, 2)?;
    let oor = prop == "C16";
    let pos = |u: &mut Unstructured<'_>, n: usize| -> AResult<usize> {
        let x = u.arbitrary::<u8>()? as usize;
        Ok(if oor && x % 3 == 0 {
            [n, n + 1, 2 * n + 3, usize::MAX / 2, usize::MAX][x / 3 % 5]
        } else if n == 0 {
            0
        } else {
            x % n
        })
    };
    Ok(match u.int_in_range(0..=2u8)? {
        0 => AnyCase::Part(PartCase { pivot: pos(u, n)?, values, stride: st, offset, elem: u.arbitrary::<u8>()? % 4 }),
        1 => AnyCase::Sel(SelCase { index: pos(u, n)?, values, stride: st, offset, pivots: pivots(u)? }),
        _ => {
            let k = small(u, 6)?;
            let mut indexes = vec![];
            for _ in 0..k {
                indexes.push(pos(u, n)?);
            }
            AnyCase::Bulk(BulkCase { values, indexes, stride: st, offset, pivots: pivots(u)? })
        }
    })
}

fn dec_nan(u: &mut Unstructured<'_>, prop: &str) -> AResult<AnyCase> {
    let which = if prop == "C14" { 2 } else { u.int_in_range(0..=2u8)? };
    Ok(match which {
        0 => {
            let ty = *u.choose(&NAN_TYPES)?;
            let n = small(u, 24)?;
            let mut mask = vec![];
            for _ in 0..n {
                mask.push(u.arbitrary::<bool>()?);
            }
            AnyCase::Remove(RemoveCase { ty, mask, stride: *u.choose(&[1isize, 2, 3, 5, -1, -2, -3, -7])?, offset: small(u, 3)?, vals: vec![] })
        }
        1 => {
            let ty = *u.choose(&NAN_TYPES)?;
            let sh = shape(u, 3, 6, 60)?;
            let total: usize = sh.iter().product();
            let axis = small(u, sh.len() - 1)?;
            let l = layout(u, sh.len())?;
            let mut mask = vec![];
            for _ in 0..total {
                mask.push(u.arbitrary::<u8>()? % 3 == 0);
            }
            AnyCase::Lanes(LanesCase { ty, shape: sh, layout: l, axis, mask })
        }
        _ => {
            let ty = *u.choose(&SKIP_TYPES)?;
            let sh = shape(u, 3, 6, 60)?;
            let total: usize = sh.iter().product();
            let axis = small(u, sh.len() - 1)?;
            let l = layout(u, sh.len())?;
            let mut mask = vec![];
            let mut vals = vec![];
            for _ in 0..total {
                let b = u.arbitrary::<u8>()?;
                mask.push(b % 4 == 0);
                vals.push((b / 4) as i16 - 20);
            }
            AnyCase::Skip(SkipCase { ty, shape: sh, layout: l, axis, vals, mask, q: qspec(u)?, strat: strat(u)?, pivots: pivots(u)? })
        }
    })
}

fn dec_quant(u: &mut Unstructured<'_>, prop: &str) -> AResult<AnyCase> {
    let ty = *u.choose(&ORD_TYPES[..10])?;
    let enc = |ty: Ty, b: u8| -> i128 {
        let v = (b % 16) as i128 - 4;
        match ty {
            Ty::N64 => f64_abs(v as f64 * 0.25),
            Ty::N32 => f32_abs(v as f32 * 0.25),
            _ => {
                let (lo, hi) = ty.int_range();
                match b {
                    250..=252 => lo,
                    253..=255 => hi,
                    _ => v.max(lo).min(hi),
                }
            }
        }
    };
    if prop == "C19" {
        let n = 1 + small(u, 15)?;
        let mut data = vec![];
        let mut keys = vec![];
        for _ in 0..n {
            data.push(enc(ty, u.arbitrary::<u8>()? % 200));
            keys.push(u.arbitrary::<u16>()?);
        }
        let k = 1 + small(u, 5)?;
        let mut qs = vec![];
        for _ in 0..k {
            qs.push(qspec(u)?);
        }
        return Ok(AnyCase::Order(OrderCase {
            ty,
            data,
            qs,
            layout: layout(u, 1)?,
            perm_keys: keys,
            relabel_inc: vec![1 + u.arbitrary::<u8>()? % 9, 1 + u.arbitrary::<u8>()? % 9],
            relabel_base: (u.arbitrary::<u8>()? % 50) as i16,
            use_bulk: u.arbitrary()?,
            pivots: vec![pivots(u)?],
        }));
    }
    let sh = shape(u, 3, 10, 80)?;
    let total: usize = sh.iter().product();
    let axis = small(u, sh.len() - 1)?;
    let l = layout(u, sh.len())?;
    let mut data = vec![];
    for _ in 0..total {
        data.push(enc(ty, u.arbitrary::<u8>()?));
    }
    let bulk = prop == "C18" || u.arbitrary::<bool>()?;
    let nq = if bulk { small(u, 6)? } else { 1 };
    let mut qs = vec![];
    for _ in 0..nq {
        qs.push(qspec(u)?);
    }
    let api = match (sh.len() == 1 && u.arbitrary::<bool>()?, bulk) {
        (true, true) => Api::OneDBulk,
        (true, false) => Api::OneDSingle,
        (false, true) => Api::AxisBulk,
        (false, false) => Api::AxisSingle,
    };
    Ok(AnyCase::Quant(QCase { ty, shape: sh, layout: l, axis, data, qs, strat: strat(u)?, api, static_dim: u.arbitrary()?, pivots: vec![pivots(u)?, pivots(u)?] }))
}

fn dec_hist(u: &mut Unstructured<'_>, prop: &str) -> AResult<AnyCase> {
    let small_vec = |u: &mut Unstructured<'_>, max: usize, lo: i64, span: u8| -> AResult<Vec<i64>> {
        let n = small(u, max)?;
        let mut v = vec![];
        for _ in 0..n {
            v.push(lo + (u.arbitrary::<u8>()? % span) as i64);
        }
        Ok(v)
    };
    Ok(match prop {
        "C13" => {
            if u.arbitrary::<bool>()? {
                AnyCase::Edges(EdgeCase { ty: *u.choose(&[HTy::I64, HTy::I32, HTy::U8, HTy::N64])?, vals: small_vec(u, 10, 0, 14)?, probes: small_vec(u, 12, -1, 17)?, via_array: u.arbitrary()?, arr_mode: u.arbitrary::<u8>()? % 4 })
            } else {
                let nd = 1 + small(u, 2)?;
                let mut axes = vec![];
                for _ in 0..nd {
                    axes.push(small_vec(u, 6, -4, 10)?);
                }
                let mut points = vec![];
                let mut indexes = vec![];
                for _ in 0..small(u, 6)? {
                    let mut p = vec![];
                    let mut i = vec![];
                    for _ in 0..nd {
                        p.push(-5 + (u.arbitrary::<u8>()? % 12) as i64);
                        i.push((u.arbitrary::<u8>()? % 7) as usize);
                    }
                    points.push(p);
                    indexes.push(i);
                }
                AnyCase::Grid(GridCase { ty: *u.choose(&[HTy::I64, HTy::I32, HTy::N64])?, axes, points, indexes })
            }
        }
        "C12" => {
            let ty = *u.choose(&[STy::I32, STy::I64, STy::U32, STy::Usize, STy::N64, STy::N64])?;
            let st = *u.choose(&BSTRATS)?;
            let n = small(u, 40)?;
            let ncols = 1 + small(u, 1)?;
            let base_sel = u.arbitrary::<u8>()?;
            let sh = u.arbitrary::<u8>()? % 24;
            let mut columns = vec![];
            for _ in 0..ncols {
                let mut col = vec![];
                for _ in 0..n {
                    let b = u.arbitrary::<u8>()? as u64;
                    col.push(match ty {
                        STy::N64 => {
                            let base = [1.0f64, 0.1, 1.0e6, 1.0e12, 3.0][base_sel as usize % 5];
                            if base_sel % 2 == 0 {
                                f64_abs(f64::from_bits(base.to_bits() + (b << sh)))
                            } else {
                                f64_abs((b as f64 - 100.0) / (1.0 + (base_sel % 12) as f64))
                            }
                        }
                        _ => (base_sel as i128 * 1000) + ((b as i128) << (sh % 12)),
                    });
                }
                columns.push(col);
            }
            AnyCase::Strat(StratCase { ty, strat: st, columns, via_grid_builder: ncols > 1 || base_sel % 3 == 0 })
        }
        _ => {
            let nd = 1 + small(u, 2)?;
            let mut axes = vec![];
            for _ in 0..nd {
                axes.push(small_vec(u, 7, -4, 10)?);
            }
            let mut points = vec![];
            let mut keys = vec![];
            for _ in 0..small(u, 30)? {
                let mut p = vec![];
                for _ in 0..nd {
                    p.push(-6 + (u.arbitrary::<u8>()? % 14) as i64);
                }
                points.push(p);
                keys.push(u.arbitrary::<u16>()?);
            }
            AnyCase::Hist(HistCase { ty: *u.choose(&[HTy::I32, HTy::N64, HTy::I64])?, axes, points, perm_keys: keys, edges_mode: 0 })
        }
    })
}

fn judge_case(prop: &str, c: &AnyCase) -> Option<(&'static str, CheckResult)> {
    use crate::props::{bulk, order, quant};
    Some(match (prop, c) {
        ("C02", AnyCase::Sel(x)) if x.index < x.values.len() => ("select", guarded(&check_select, x)),
        ("C02", AnyCase::Bulk(x)) if x.indexes.iter().all(|&i| i < x.values.len()) => ("bulk", guarded(&check_bulk, x)),
        ("C15", AnyCase::Part(x)) if x.pivot < x.values.len() => ("partition", guarded(&check_partition, x)),
        ("C16", AnyCase::Part(x)) => ("partition", guarded(&check_partition, x)),
        ("C16", AnyCase::Sel(x)) => ("select", guarded(&check_select, x)),
        ("C16", AnyCase::Bulk(x)) => ("bulk", guarded(&check_bulk, x)),
        ("C03", AnyCase::Part(x)) => ("partition", guarded(&c03_partition, x)),
        ("C03", AnyCase::Sel(x)) => ("select", guarded(&c03_select, x)),
        ("C03", AnyCase::Bulk(x)) => ("bulk", guarded(&c03_bulk, x)),
        ("C03", AnyCase::Remove(x)) => ("remove", guarded(&c03_remove, x)),
        ("C03", AnyCase::Lanes(x)) => ("lanes", guarded(&c03_lanes, x)),
        ("C03", AnyCase::Skip(x)) => ("skip", guarded(&c03_skip, x)),
        ("C04", AnyCase::Remove(x)) => ("remove", guarded(&check_remove, x)),
        ("C04", AnyCase::Lanes(x)) => ("lanes", guarded(&check_lanes, x)),
        ("C04", AnyCase::Skip(x)) => ("skip", guarded(&check_skip, x)),
        ("C14", AnyCase::Skip(x)) => ("skip", guarded(&check_skip, x)),
        ("C01", AnyCase::Quant(x)) => ("quant", guarded(&quant::check_quant, x)),
        ("C18", AnyCase::Quant(x)) => ("bulk-quant", guarded(&bulk::check_bulk_quant, x)),
        ("C19", AnyCase::Order(x)) => ("order", guarded(&order::check_order, x)),
        ("C13", AnyCase::Edges(x)) => ("edges", guarded(&check_edges, x)),
        ("C13", AnyCase::Grid(x)) => ("grid", guarded(&check_grid, x)),
        ("C11", AnyCase::Hist(x)) => ("hist", guarded(&check_hist, x)),
        ("C12", AnyCase::Strat(x)) => ("strat", guarded(&check_strat, x)),
        _ => return None,
    })
}

static INIT: Once = Once::new();

/// Entry point of every libFuzzer target.
pub fn run_target(target: &str, data: &[u8]) {
    INIT.call_once(|| {
        // replace libfuzzer-sys's abort-on-panic hook: the oracles need catch_unwind
        install_quiet_panic_hook();
    });
    // libfuzzer-sys re-installs nothing per iteration, but be safe against state leaking
    reset_hooks();
    let prop = std::env::var("NSV_PROP").unwrap_or_else(|_| match target {
        "sel" => "C16".to_string(),
        "nan" => "C04".to_string(),
        "quant" => "C01".to_string(),
        _ => "C11".to_string(),
    });
    let mut u = Unstructured::new(data);
    let case = match target {
        "sel" => dec_sel(&mut u, &prop),
        "nan" => dec_nan(&mut u, &prop),
        "quant" => dec_quant(&mut u, &prop),
        _ => dec_hist(&mut u, &prop),
    };
    let case = match case {
        Ok(c) => c,
        Err(_) => return,
    };
    if let Some((checker, Err(f))) = judge_case(&prop, &case) {
        // structured replay file, then a crash for libFuzzer to record the input
        let inner = match serde_json::to_value(&case) {
            Ok(serde_json::Value::Object(m)) => m.into_iter().next().map(|(_, v)| v).unwrap_or(serde_json::Value::Null),
            _ => serde_json::Value::Null,
        };
        let root = std::env::var("NSV_ROOT").unwrap_or_else(|_| "/verif".to_string());
        let dir = format!("{}/out/replay", root);
        let _ = std::fs::create_dir_all(&dir);
        let path = format!("{}/{}-fuzz-{}-{:016x}.json", dir, prop, checker.replace('/', "_"), hash_str(&inner.to_string()));
        let v = serde_json::json!({"property": prop, "checker": checker, "profile": "fuzz(asan,debug-assertions)", "seed": 0, "case": inner, "kind": f.kind, "message": f.msg});
        let _ = std::fs::write(&path, serde_json::to_string_pretty(&v).unwrap());
        eprintln!("NSV-FUZZ-VIOLATION property={} replay={} :: {} {}", prop, path, f.kind, f.msg);
        std::process::abort();
    }
}
