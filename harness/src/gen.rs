//! Element types and value generators. Case structs hold element data in an abstract,
//! serialisable form (`Vec<i128>`: the integer value, or the IEEE bit pattern for floats);
//! the typed arrays are built from it through [`Abs`].

use crate::layout::El;
use noisy_float::types::{N32, N64};
use proptest::prelude::*;
use serde::{Deserialize, Serialize};

#[derive(Clone, Copy, Debug, Serialize, Deserialize, Hash, PartialEq, Eq)]
pub enum Ty {
    I8,
    I16,
    I32,
    I64,
    U8,
    U16,
    U32,
    U64,
    Usize,
    N64,
    N32,
}

pub const ORD_TYPES: [Ty; 11] = [Ty::I8, Ty::I16, Ty::I32, Ty::I64, Ty::U8, Ty::U16, Ty::U32, Ty::U64, Ty::Usize, Ty::N64, Ty::N32];

impl Ty {
    pub fn is_float(self) -> bool {
        matches!(self, Ty::N64 | Ty::N32)
    }
    pub fn is_signed_int(self) -> bool {
        matches!(self, Ty::I8 | Ty::I16 | Ty::I32 | Ty::I64)
    }
    pub fn int_range(self) -> (i128, i128) {
        match self {
            Ty::I8 => (i8::MIN as i128, i8::MAX as i128),
            Ty::I16 => (i16::MIN as i128, i16::MAX as i128),
            Ty::I32 => (i32::MIN as i128, i32::MAX as i128),
            Ty::I64 => (i64::MIN as i128, i64::MAX as i128),
            Ty::U8 => (0, u8::MAX as i128),
            Ty::U16 => (0, u16::MAX as i128),
            Ty::U32 => (0, u32::MAX as i128),
            Ty::U64 | Ty::Usize => (0, u64::MAX as i128),
            Ty::N64 | Ty::N32 => (0, 0),
        }
    }
    pub fn bits(self) -> u32 {
        match self {
            Ty::I8 | Ty::U8 => 8,
            Ty::I16 | Ty::U16 => 16,
            Ty::I32 | Ty::U32 | Ty::N32 => 32,
            _ => 64,
        }
    }
    pub fn class(self) -> &'static str {
        match self {
            Ty::I8 => "type:i8",
            Ty::I16 => "type:i16",
            Ty::I32 => "type:i32",
            Ty::I64 => "type:i64",
            Ty::U8 => "type:u8",
            Ty::U16 => "type:u16",
            Ty::U32 => "type:u32",
            Ty::U64 => "type:u64",
            Ty::Usize => "type:usize",
            Ty::N64 => "type:N64",
            Ty::N32 => "type:N32",
        }
    }
}

/// Conversion between the abstract encoding and the typed element.
pub trait Abs: El + PartialEq {
    fn from_abs(v: i128) -> Self;
    fn to_abs(&self) -> i128;
    /// exact value as f64 when representable (used in messages only)
    fn show(&self) -> String {
        format!("{:?}", self)
    }
}

macro_rules! abs_int {
    ($($t:ty),*) => {$(
        impl Abs for $t {
            fn from_abs(v: i128) -> Self { v as $t }
            fn to_abs(&self) -> i128 { *self as i128 }
        }
    )*};
}
abs_int!(i8, i16, i32, i64, i128, u8, u16, u32, u64, usize);

impl Abs for f64 {
    fn from_abs(v: i128) -> Self {
        f64::from_bits(v as u64)
    }
    fn to_abs(&self) -> i128 {
        self.to_bits() as i128
    }
}
impl Abs for f32 {
    fn from_abs(v: i128) -> Self {
        f32::from_bits(v as u32)
    }
    fn to_abs(&self) -> i128 {
        self.to_bits() as i128
    }
}
impl Abs for N64 {
    fn from_abs(v: i128) -> Self {
        N64::unchecked_new(f64::from_bits(v as u64))
    }
    fn to_abs(&self) -> i128 {
        self.raw().to_bits() as i128
    }
}
impl Abs for N32 {
    fn from_abs(v: i128) -> Self {
        N32::unchecked_new(f32::from_bits(v as u32))
    }
    fn to_abs(&self) -> i128 {
        self.raw().to_bits() as i128
    }
}

pub fn f64_abs(x: f64) -> i128 {
    x.to_bits() as i128
}
pub fn f32_abs(x: f32) -> i128 {
    x.to_bits() as i128
}
pub fn abs_f64(v: i128) -> f64 {
    f64::from_bits(v as u64)
}
pub fn abs_f32(v: i128) -> f32 {
    f32::from_bits(v as u32)
}

/// Dispatch a generic function over the `Ord` element types.
#[macro_export]
macro_rules! dispatch_ord {
    ($ty:expr, $f:ident ( $($args:expr),* )) => {
        match $ty {
            $crate::gen::Ty::I8 => $f::<i8>($($args),*),
            $crate::gen::Ty::I16 => $f::<i16>($($args),*),
            $crate::gen::Ty::I32 => $f::<i32>($($args),*),
            $crate::gen::Ty::I64 => $f::<i64>($($args),*),
            $crate::gen::Ty::U8 => $f::<u8>($($args),*),
            $crate::gen::Ty::U16 => $f::<u16>($($args),*),
            $crate::gen::Ty::U32 => $f::<u32>($($args),*),
            $crate::gen::Ty::U64 => $f::<u64>($($args),*),
            $crate::gen::Ty::Usize => $f::<usize>($($args),*),
            $crate::gen::Ty::N64 => $f::<noisy_float::types::N64>($($args),*),
            $crate::gen::Ty::N32 => $f::<noisy_float::types::N32>($($args),*),
        }
    };
}

// ---------------------------------------------------------------------------------------
// value strategies

fn clip(v: i128, lo: i128, hi: i128) -> i128 {
    v.max(lo).min(hi)
}

/// One integer of type `ty`, from a magnitude class chosen per case.
#[derive(Clone, Copy, Debug)]
pub enum IntClass {
    Tiny,
    Small,
    Full,
    Extremes,
    /// |v| < 2^52 (the domain of Linear interpolation on 64-bit integers)
    Below52,
}

pub fn int_value(ty: Ty, class: IntClass) -> BoxedStrategy<i128> {
    let (lo, hi) = ty.int_range();
    match class {
        IntClass::Tiny => (0i128..4).prop_map(move |v| clip(v, lo, hi)).boxed(),
        IntClass::Small => (-100i128..100).prop_map(move |v| clip(v, lo, hi)).boxed(),
        IntClass::Full => (lo..=hi).boxed(),
        IntClass::Below52 => {
            let b = (1i128 << 52) - 1;
            (clip(-b, lo, hi)..=clip(b, lo, hi)).boxed()
        }
        IntClass::Extremes => prop_oneof![
            Just(lo),
            Just(clip(lo + 1, lo, hi)),
            Just(clip(-1, lo, hi)),
            Just(clip(0, lo, hi)),
            Just(clip(1, lo, hi)),
            Just(hi - 1),
            Just(hi),
            (lo..=hi),
        ]
        .boxed(),
    }
}

pub fn int_values(ty: Ty, len: std::ops::Range<usize>, allow_wide: bool) -> BoxedStrategy<Vec<i128>> {
    let l = len.clone();
    if allow_wide {
        prop_oneof![
            3 => proptest::collection::vec(int_value(ty, IntClass::Tiny), l.clone()),
            3 => proptest::collection::vec(int_value(ty, IntClass::Small), l.clone()),
            // one value repeated with a few others mixed in (deep quickselect recursions)
            2 => (proptest::collection::vec(Just(clip(2, ty.int_range().0, ty.int_range().1)), l.clone()), proptest::collection::vec((any::<u16>(), int_value(ty, IntClass::Small)), 0..6)).prop_map(|(mut v, extra)| {
                let n = v.len();
                for (pos, x) in extra {
                    if n > 0 {
                        v[pos as usize % n] = x;
                    }
                }
                v
            }),
            2 => proptest::collection::vec(int_value(ty, IntClass::Full), l.clone()),
            2 => proptest::collection::vec(int_value(ty, IntClass::Extremes), l.clone()),
            // closely spaced values at a huge base (near MAX, near MAX/2, near MIN)
            2 => (0u8..3, proptest::collection::vec(0i128..1000, l.clone())).prop_map(move |(which, v)| {
                let (lo, hi) = ty.int_range();
                let base = match which {
                    0 => hi - 1000,
                    1 => hi / 2,
                    _ => lo,
                };
                v.into_iter().map(|x| clip(base + x, lo, hi)).collect::<Vec<i128>>()
            }),
        ]
        .boxed()
    } else {
        prop_oneof![
            3 => proptest::collection::vec(int_value(ty, IntClass::Tiny), l.clone()),
            3 => proptest::collection::vec(int_value(ty, IntClass::Small), l.clone()),
            2 => proptest::collection::vec(int_value(ty, IntClass::Below52), l.clone()),
        ]
        .boxed()
    }
}

/// Finite f64 (never NaN) from several shape classes; `inf` admits +-infinity.
pub fn f64_value(inf: bool) -> BoxedStrategy<f64> {
    let finite = prop_oneof![
        // small integers and halves: heavy ties
        3 => (-6i32..7).prop_map(|k| k as f64 * 0.5),
        // k/10, k/3: not exactly representable
        2 => (-50i32..50).prop_map(|k| k as f64 / 10.0),
        1 => (-20i32..20).prop_map(|k| k as f64 / 3.0),
        // sign x exponent window x mantissa
        3 => (any::<bool>(), -60i32..60, any::<u64>()).prop_map(|(s, e, m)| {
            let x = (1.0 + (m >> 12) as f64 / (1u64 << 52) as f64) * 2f64.powi(e);
            if s { -x } else { x }
        }),
        // large common offset + small spread
        2 => (0u32..1000).prop_map(|k| 1.0e12 + k as f64 * 0.125),
        1 => (0u64..64).prop_map(|k| f64::from_bits(1.0f64.to_bits() + k)),
        // signed zeros, subnormals, extremes
        1 => prop_oneof![Just(0.0f64), Just(-0.0f64), Just(f64::MIN_POSITIVE), Just(5e-324), Just(-5e-324), Just(f64::MAX), Just(f64::MIN), Just(f64::MAX / 2.0), Just(-f64::MAX / 2.0)],
        // full range of bit patterns, finite
        1 => any::<u64>().prop_map(|b| { let x = f64::from_bits(b); if x.is_finite() { x } else { 1.5 } }),
    ];
    if inf {
        prop_oneof![30 => finite, 1 => Just(f64::INFINITY), 1 => Just(f64::NEG_INFINITY)].boxed()
    } else {
        finite.boxed()
    }
}

pub fn f32_value(inf: bool) -> BoxedStrategy<f32> {
    let finite = prop_oneof![
        3 => (-6i32..7).prop_map(|k| k as f32 * 0.5),
        2 => (-50i32..50).prop_map(|k| k as f32 / 10.0),
        3 => (any::<bool>(), -20i32..20, any::<u32>()).prop_map(|(s, e, m)| {
            let x = (1.0 + (m >> 9) as f32 / (1u32 << 23) as f32) * 2f32.powi(e);
            if s { -x } else { x }
        }),
        1 => prop_oneof![Just(0.0f32), Just(-0.0f32), Just(f32::MIN_POSITIVE), Just(1e-45f32), Just(f32::MAX), Just(f32::MIN)],
        1 => any::<u32>().prop_map(|b| { let x = f32::from_bits(b); if x.is_finite() { x } else { 1.5 } }),
    ];
    if inf {
        prop_oneof![30 => finite, 1 => Just(f32::INFINITY), 1 => Just(f32::NEG_INFINITY)].boxed()
    } else {
        finite.boxed()
    }
}

/// Values of an `Ord` element type in the abstract encoding.
/// `wide`: full-width / extreme values allowed (else |v| < 2^52 for 64-bit integers and no
/// infinities / near-overflow magnitudes for floats).
pub fn ord_values(ty: Ty, len: std::ops::Range<usize>, wide: bool) -> BoxedStrategy<Vec<i128>> {
    match ty {
        Ty::N64 => {
            if wide {
                prop_oneof![
                    3 => proptest::collection::vec(moderate_f64().prop_map(f64_abs), len.clone()),
                    2 => proptest::collection::vec(f64_value(false).prop_map(f64_abs), len.clone()),
                    1 => proptest::collection::vec(f64_value(true).prop_map(f64_abs), len.clone()),
                    // ties that are equal under Ord but differ in their bit pattern
                    1 => proptest::collection::vec(prop_oneof![Just(0.0f64), Just(-0.0f64), Just(0.0f64), Just(1.0f64), Just(-1.0f64)].prop_map(f64_abs), len),
                ]
                .boxed()
            } else {
                prop_oneof![
                    6 => proptest::collection::vec(moderate_f64().prop_map(f64_abs), len.clone()),
                    1 => proptest::collection::vec(prop_oneof![Just(0.0f64), Just(-0.0f64), Just(0.0f64), Just(1.0f64), Just(-1.0f64)].prop_map(f64_abs), len),
                ]
                .boxed()
            }
        }
        Ty::N32 => {
            if wide {
                prop_oneof![
                    3 => proptest::collection::vec(moderate_f32().prop_map(f32_abs), len.clone()),
                    2 => proptest::collection::vec(f32_value(false).prop_map(f32_abs), len.clone()),
                    1 => proptest::collection::vec(f32_value(true).prop_map(f32_abs), len),
                ]
                .boxed()
            } else {
                proptest::collection::vec(moderate_f32().prop_map(f32_abs), len).boxed()
            }
        }
        _ => int_values(ty, len, wide),
    }
}

/// Finite f64 of moderate magnitude (|x| in [2^-60, 2^60] or 0): differences never overflow.
pub fn moderate_f64() -> BoxedStrategy<f64> {
    prop_oneof![
        3 => (-6i32..7).prop_map(|k| k as f64 * 0.5),
        2 => (-50i32..50).prop_map(|k| k as f64 / 10.0),
        1 => (-20i32..20).prop_map(|k| k as f64 / 3.0),
        3 => (any::<bool>(), -60i32..60, any::<u64>()).prop_map(|(s, e, m)| {
            let x = (1.0 + (m >> 12) as f64 / (1u64 << 52) as f64) * 2f64.powi(e);
            if s { -x } else { x }
        }),
        2 => (0u32..1000).prop_map(|k| 1.0e12 + k as f64 * 0.125),
        1 => (0u64..64).prop_map(|k| f64::from_bits(1.0f64.to_bits() + k)),
        1 => prop_oneof![Just(0.0f64), Just(-0.0f64)],
    ]
    .boxed()
}

pub fn moderate_f32() -> BoxedStrategy<f32> {
    prop_oneof![
        3 => (-6i32..7).prop_map(|k| k as f32 * 0.5),
        2 => (-50i32..50).prop_map(|k| k as f32 / 10.0),
        3 => (any::<bool>(), -20i32..20, any::<u32>()).prop_map(|(s, e, m)| {
            let x = (1.0 + (m >> 9) as f32 / (1u32 << 23) as f32) * 2f32.powi(e);
            if s { -x } else { x }
        }),
        1 => prop_oneof![Just(0.0f32), Just(-0.0f32)],
    ]
    .boxed()
}

pub fn ty_strategy(with_n32: bool) -> BoxedStrategy<Ty> {
    if with_n32 {
        proptest::sample::select(ORD_TYPES.to_vec()).boxed()
    } else {
        proptest::sample::select(ORD_TYPES[..10].to_vec()).boxed()
    }
}

/// Shapes of `nd` dimensions with the given per-axis length range, total size bounded.
pub fn shape_strategy(nd: usize, max_axis: usize, max_total: usize, allow_zero: bool) -> BoxedStrategy<Vec<usize>> {
    let lo = if allow_zero { 0 } else { 1 };
    proptest::collection::vec(lo..=max_axis, nd)
        .prop_map(move |mut s| {
            // shrink the largest axes until the total fits
            loop {
                let total: usize = s.iter().product();
                if total <= max_total {
                    break;
                }
                let k = (0..s.len()).max_by_key(|&k| s[k]).unwrap();
                s[k] = (s[k] + 1) / 2;
            }
            s
        })
        .boxed()
}

/// Deterministic expansion of a *generated* 64-bit seed into a stream (splitmix64). Long cases
/// (thousands of elements) are built from a seed that proptest generates and shrinks; the
/// expanded values are stored in the case, so replay never depends on this function.
pub fn splitmix(seed: u64) -> impl FnMut() -> u64 {
    let mut s = seed;
    move || {
        s = s.wrapping_add(0x9e37_79b9_7f4a_7c15);
        let mut z = s;
        z = (z ^ (z >> 30)).wrapping_mul(0xbf58_476d_1ce4_e5b9);
        z = (z ^ (z >> 27)).wrapping_mul(0x94d0_49bb_1331_11eb);
        z ^ (z >> 31)
    }
}

/// Lengths at which blocked / chunked / thresholded code changes regime, up to `max`.
pub fn regime_lengths(min: usize, max: usize) -> Vec<usize> {
    let mut v = vec![];
    for b in [64usize, 128, 256, 512, 1024, 2048, 4096, 8192, 16384, 32768, 65536] {
        for k in 1..=3usize {
            for d in [-1isize, 0, 1] {
                let n = (b * k) as isize + d;
                if n >= min as isize && n <= max as isize {
                    v.push(n as usize);
                }
            }
        }
    }
    for n in [1000usize, 2000, 3000, 5000, 9000, 10_000, 20_000, 50_000, 70_000] {
        if n >= min && n <= max {
            v.push(n);
        }
    }
    v.sort_unstable();
    v.dedup();
    if v.is_empty() {
        v.push(max);
    }
    v
}

/// A long length: half of the time one of `regime_lengths`, otherwise uniform in min..=max.
pub fn long_len(min: usize, max: usize) -> BoxedStrategy<usize> {
    prop_oneof![1 => proptest::sample::select(regime_lengths(min, max)), 1 => min..=max].boxed()
}
