//! Layout generator: any logical array realised as a view into a larger, sentinel-filled
//! parent allocation (axis permutation, per-axis step, reversal, padding), using only
//! ndarray's public slicing API. Plus the 1-D strided-view helper.

use ndarray::{ArrayD, ArrayViewD, ArrayViewMut1, ArrayViewMutD, Axis, Dimension, IxDyn, Slice};
use noisy_float::types::{N32, N64};
use proptest::prelude::*;
use serde::{Deserialize, Serialize};

/// Element types the harness can lay out: bit-exact identity and a sentinel value that the
/// data generators never produce.
pub trait El: Clone + std::fmt::Debug + 'static {
    fn bits(&self) -> (u8, u128);
    fn sentinel() -> Self;
}

macro_rules! el_int {
    ($($t:ty),*) => {$(
        impl El for $t {
            fn bits(&self) -> (u8, u128) { (1, *self as u128) }
            fn sentinel() -> Self { (<$t>::MAX / 2) - 3 }
        }
    )*};
}
el_int!(i8, i16, i32, i64, i128, u8, u16, u32, u64, u128, usize, isize);

impl El for f64 {
    fn bits(&self) -> (u8, u128) {
        (1, self.to_bits() as u128)
    }
    fn sentinel() -> Self {
        -7.770_077e-77
    }
}
impl El for f32 {
    fn bits(&self) -> (u8, u128) {
        (1, self.to_bits() as u128)
    }
    fn sentinel() -> Self {
        -7.77e-33
    }
}
impl El for N64 {
    fn bits(&self) -> (u8, u128) {
        (1, self.raw().to_bits() as u128)
    }
    fn sentinel() -> Self {
        N64::unchecked_new(-7.770_077e-77)
    }
}
impl El for N32 {
    fn bits(&self) -> (u8, u128) {
        (1, self.raw().to_bits() as u128)
    }
    fn sentinel() -> Self {
        N32::unchecked_new(-7.77e-33)
    }
}
impl El for bool {
    fn bits(&self) -> (u8, u128) {
        (1, *self as u128)
    }
    fn sentinel() -> Self {
        false
    }
}
impl<T: El> El for Option<T> {
    fn bits(&self) -> (u8, u128) {
        match self {
            None => (0, 0),
            Some(v) => (1, v.bits().1),
        }
    }
    fn sentinel() -> Self {
        Some(T::sentinel())
    }
}

// ---------------------------------------------------------------------------------------
// 1-D strided views into a buffer

/// Buffer length needed for a view of `n` elements with the given offset/stride and
/// `pad` trailing guard elements.
pub fn buf_len(offset: usize, n: usize, stride: isize, pad: usize) -> usize {
    let s = stride.unsigned_abs();
    offset + if n == 0 { 0 } else { (n - 1) * s + 1 } + pad
}

/// Buffer position of each logical index.
pub fn positions(offset: usize, n: usize, stride: isize) -> Vec<usize> {
    let s = stride.unsigned_abs();
    (0..n)
        .map(|i| if stride > 0 { offset + i * s } else { offset + (n - 1 - i) * s })
        .collect()
}

/// The view itself, built with ndarray's slicing only.
pub fn view1<'a, T>(buf: &'a mut [T], offset: usize, n: usize, stride: isize) -> ArrayViewMut1<'a, T> {
    let s = stride.unsigned_abs();
    let end = offset + if n == 0 { 0 } else { (n - 1) * s + 1 };
    let v = ArrayViewMut1::from(buf);
    let r = v.slice_axis_move(Axis(0), Slice::new(offset as isize, Some(end as isize), stride));
    assert_eq!(r.len(), n);
    r
}

/// Fills a fresh buffer: sentinel everywhere, `data[i]` at the position of logical index i.
pub fn make_buf<T: El>(data: &[T], offset: usize, stride: isize, pad: usize) -> Vec<T> {
    let mut buf = vec![T::sentinel(); buf_len(offset, data.len(), stride, pad)];
    for (p, d) in positions(offset, data.len(), stride).into_iter().zip(data) {
        buf[p] = d.clone();
    }
    buf
}

/// Guard check: every buffer element outside the view still is the sentinel.
pub fn guards_intact<T: El>(buf: &[T], offset: usize, n: usize, stride: isize) -> Result<(), String> {
    let mut inside = vec![false; buf.len()];
    for p in positions(offset, n, stride) {
        inside[p] = true;
    }
    let s = T::sentinel().bits();
    for (k, e) in buf.iter().enumerate() {
        if !inside[k] && e.bits() != s {
            return Err(format!(
                "buffer position {} lies outside the view (offset {}, len {}, stride {}) but was changed to {:?}",
                k, offset, n, stride, e
            ));
        }
    }
    Ok(())
}

pub fn multiset<T: El>(it: impl Iterator<Item = T>) -> Vec<(u8, u128)> {
    let mut v: Vec<(u8, u128)> = it.map(|e| e.bits()).collect();
    v.sort_unstable();
    v
}

// ---------------------------------------------------------------------------------------
// n-D layouts

#[derive(Clone, Debug, Serialize, Deserialize, Hash, PartialEq, Eq)]
pub struct LayoutSpec {
    /// memory axis k (slowest first) holds logical axis `perm[k]`
    pub perm: Vec<usize>,
    /// per logical axis: step in 1..=3
    pub steps: Vec<usize>,
    /// per logical axis: reversed
    pub rev: Vec<bool>,
    /// per logical axis: guard elements in front / behind
    pub pad_front: Vec<usize>,
    pub pad_back: Vec<usize>,
}

impl LayoutSpec {
    pub fn c_order(nd: usize) -> LayoutSpec {
        LayoutSpec {
            perm: (0..nd).collect(),
            steps: vec![1; nd],
            rev: vec![false; nd],
            pad_front: vec![0; nd],
            pad_back: vec![0; nd],
        }
    }
    pub fn f_order(nd: usize) -> LayoutSpec {
        let mut l = LayoutSpec::c_order(nd);
        l.perm.reverse();
        l
    }
    pub fn ndim(&self) -> usize {
        self.perm.len()
    }
    pub fn is_c(&self) -> bool {
        self.perm.iter().enumerate().all(|(k, &p)| k == p)
            && self.steps.iter().all(|&s| s == 1)
            && self.rev.iter().all(|r| !r)
    }
    pub fn is_f(&self) -> bool {
        let nd = self.ndim();
        nd >= 2
            && self.perm.iter().enumerate().all(|(k, &p)| nd - 1 - k == p)
            && self.steps.iter().all(|&s| s == 1)
            && self.rev.iter().all(|r| !r)
    }
    pub fn stepped(&self) -> bool {
        self.steps.iter().any(|&s| s > 1)
    }
    pub fn reversed(&self) -> bool {
        self.rev.iter().any(|&r| r)
    }
    pub fn permuted(&self) -> bool {
        !self.perm.iter().enumerate().all(|(k, &p)| k == p)
    }
    pub fn padded(&self) -> bool {
        self.pad_front.iter().chain(self.pad_back.iter()).any(|&p| p > 0)
    }
    /// Is there any parent element outside the view (for the given logical shape)?
    pub fn has_guard(&self, shape: &[usize]) -> bool {
        self.padded() || shape.iter().zip(&self.steps).any(|(&n, &s)| n >= 2 && s > 1)
    }
    pub fn class(&self) -> &'static str {
        if self.is_c() && !self.padded() {
            "layout:contiguous-C"
        } else if self.is_f() && !self.padded() {
            "layout:contiguous-F"
        } else if self.permuted() && (self.stepped() || self.reversed()) {
            "layout:permuted+stepped/reversed"
        } else if self.permuted() {
            "layout:permuted"
        } else if self.reversed() {
            "layout:reversed"
        } else if self.stepped() {
            "layout:stepped"
        } else {
            "layout:offset-in-parent"
        }
    }
}

pub fn layout_strategy(nd: usize) -> impl Strategy<Value = LayoutSpec> {
    let perm = Just((0..nd).collect::<Vec<usize>>()).prop_shuffle();
    let perm = prop_oneof![
        3 => Just((0..nd).collect::<Vec<usize>>()),
        2 => Just((0..nd).rev().collect::<Vec<usize>>()),
        3 => perm,
    ];
    let plain = prop_oneof![
        Just(LayoutSpec::c_order(nd)),
        Just(LayoutSpec::f_order(nd)),
    ];
    let general = (
        perm,
        proptest::collection::vec(prop_oneof![3 => Just(1usize), 2 => Just(2usize), 1 => Just(3usize)], nd),
        proptest::collection::vec(proptest::bool::weighted(0.3), nd),
        proptest::collection::vec(0usize..3, nd),
        proptest::collection::vec(0usize..3, nd),
    )
        .prop_map(|(perm, steps, rev, pad_front, pad_back)| LayoutSpec {
            perm,
            steps,
            rev,
            pad_front,
            pad_back,
        });
    // contiguous in memory but not standard: permuted and/or reversed axes, no steps, no padding
    let perm2 = Just((0..nd).collect::<Vec<usize>>()).prop_shuffle();
    let contiguous = (perm2, proptest::collection::vec(any::<bool>(), nd)).prop_map(move |(perm, rev)| LayoutSpec { perm, steps: vec![1; nd], rev, pad_front: vec![0; nd], pad_back: vec![0; nd] });
    prop_oneof![2 => plain, 3 => contiguous, 8 => general]
}

/// A logical array realised inside a sentinel-filled parent.
#[derive(Clone, Debug)]
pub struct Laid<T> {
    pub parent: ArrayD<T>,
    pub mask: ArrayD<bool>,
    pub spec: LayoutSpec,
    pub shape: Vec<usize>,
}

fn parent_shape(spec: &LayoutSpec, shape: &[usize]) -> Vec<usize> {
    spec.perm
        .iter()
        .map(|&l| {
            let n = shape[l];
            spec.pad_front[l] + if n == 0 { 0 } else { (n - 1) * spec.steps[l] + 1 } + spec.pad_back[l]
        })
        .collect()
}

fn slice_of(spec: &LayoutSpec, shape: &[usize], l: usize) -> Slice {
    let n = shape[l];
    let start = spec.pad_front[l];
    let end = start + if n == 0 { 0 } else { (n - 1) * spec.steps[l] + 1 };
    let step = spec.steps[l] as isize;
    Slice::new(start as isize, Some(end as isize), if spec.rev[l] { -step } else { step })
}

fn inv_perm(perm: &[usize]) -> Vec<usize> {
    // result axis l must be parent axis k where perm[k] == l
    let mut inv = vec![0; perm.len()];
    for (k, &l) in perm.iter().enumerate() {
        inv[l] = k;
    }
    inv
}

pub fn carve<'a, T>(parent: &'a ArrayD<T>, spec: &LayoutSpec, shape: &[usize]) -> ArrayViewD<'a, T> {
    let mut v = parent.view();
    for (k, &l) in spec.perm.iter().enumerate() {
        v.slice_axis_inplace(Axis(k), slice_of(spec, shape, l));
    }
    let v = v.permuted_axes(IxDyn(&inv_perm(&spec.perm)));
    assert_eq!(v.shape(), shape);
    v
}

pub fn carve_mut<'a, T>(parent: &'a mut ArrayD<T>, spec: &LayoutSpec, shape: &[usize]) -> ArrayViewMutD<'a, T> {
    let mut v = parent.view_mut();
    for (k, &l) in spec.perm.iter().enumerate() {
        v.slice_axis_inplace(Axis(k), slice_of(spec, shape, l));
    }
    let v = v.permuted_axes(IxDyn(&inv_perm(&spec.perm)));
    assert_eq!(v.shape(), shape);
    v
}

impl<T: El> Laid<T> {
    /// `data` in logical (row-major) order.
    pub fn new(spec: &LayoutSpec, shape: &[usize], data: &[T]) -> Laid<T> {
        assert_eq!(spec.ndim(), shape.len());
        assert_eq!(shape.iter().product::<usize>(), data.len());
        let ps = parent_shape(spec, shape);
        let mut parent = ArrayD::from_elem(IxDyn(&ps), T::sentinel());
        let mut mask = ArrayD::from_elem(IxDyn(&ps), false);
        let logical = ArrayD::from_shape_vec(IxDyn(shape), data.to_vec()).unwrap();
        carve_mut(&mut parent, spec, shape).assign(&logical);
        carve_mut(&mut mask, spec, shape).fill(true);
        Laid {
            parent,
            mask,
            spec: spec.clone(),
            shape: shape.to_vec(),
        }
    }
    pub fn view(&self) -> ArrayViewD<'_, T> {
        carve(&self.parent, &self.spec, &self.shape)
    }
    pub fn view_mut(&mut self) -> ArrayViewMutD<'_, T> {
        carve_mut(&mut self.parent, &self.spec, &self.shape)
    }
    /// Logical contents, row-major.
    pub fn logical(&self) -> Vec<T> {
        self.view().iter().cloned().collect()
    }
    pub fn has_guard(&self) -> bool {
        self.mask.iter().any(|m| !m)
    }
    /// Every parent element outside the view still is the sentinel.
    pub fn guards_intact(&self) -> Result<(), String> {
        let s = T::sentinel().bits();
        for ((idx, e), m) in self.parent.indexed_iter().zip(self.mask.iter()) {
            if !*m && e.bits() != s {
                return Err(format!(
                    "parent element {:?} lies outside the view (layout {:?}, logical shape {:?}) but was changed to {:?}",
                    idx.slice(),
                    self.spec,
                    self.shape,
                    e
                ));
            }
        }
        Ok(())
    }
}

/// Lanes of a logical row-major array along `axis`: for each lane (in row-major order of the
/// remaining axes) the flat logical indexes of its elements.
pub fn lane_indexes(shape: &[usize], axis: usize) -> Vec<Vec<usize>> {
    let nd = shape.len();
    let mut strides = vec![1usize; nd];
    for k in (0..nd.saturating_sub(1)).rev() {
        strides[k] = strides[k + 1] * shape[k + 1];
    }
    let rest: Vec<usize> = (0..nd).filter(|&k| k != axis).collect();
    let n_lanes: usize = rest.iter().map(|&k| shape[k]).product();
    let mut out = Vec::with_capacity(n_lanes);
    let mut idx = vec![0usize; rest.len()];
    for _ in 0..n_lanes {
        let base: usize = rest.iter().zip(&idx).map(|(&k, &i)| i * strides[k]).sum();
        out.push((0..shape[axis]).map(|j| base + j * strides[axis]).collect());
        // odometer
        for p in (0..rest.len()).rev() {
            idx[p] += 1;
            if idx[p] < shape[rest[p]] {
                break;
            }
            idx[p] = 0;
        }
    }
    out
}

/// C03 oracle: every lane along `axis` holds the same multiset of bit patterns as before.
pub fn lanes_preserved<T: El>(before: &[T], after: &[T], shape: &[usize], axis: usize) -> Result<(), String> {
    for (l, idx) in lane_indexes(shape, axis).iter().enumerate() {
        let b = multiset(idx.iter().map(|&i| before[i].clone()));
        let a = multiset(idx.iter().map(|&i| after[i].clone()));
        if a != b {
            return Err(format!(
                "lane {} along axis {} changed its multiset: before {:?}, after {:?}",
                l,
                axis,
                idx.iter().map(|&i| &before[i]).collect::<Vec<_>>(),
                idx.iter().map(|&i| &after[i]).collect::<Vec<_>>()
            ));
        }
    }
    Ok(())
}

