pub mod core;
pub mod gen;
pub mod layout;
pub mod props;
pub mod registry;
pub mod driver;
