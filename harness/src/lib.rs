pub mod core;
pub mod gen;
pub mod exact;
pub mod layout;
pub mod qoracle;
pub mod props;
pub mod registry;
pub mod driver;
