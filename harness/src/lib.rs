pub mod core;
pub mod layout;
pub mod props;
pub mod registry;
pub mod driver;
