use nsv::driver;

fn usage() -> i32 {
    eprintln!("usage: nsv drive <ID> <quick|thorough> | nsv worker ... | nsv replay <file> | nsv list");
    2
}

fn main() {
    let args: Vec<String> = std::env::args().skip(1).collect();
    let code = match args.first().map(|s| s.as_str()) {
        Some("drive") if args.len() >= 3 => driver::drive_main(&args[1], &args[2]),
        Some("worker") => driver::worker_main(&args[1..]),
        Some("replay") if args.len() >= 2 => driver::replay_main(&args[1], false),
        Some("list") => {
            for p in nsv::registry::all() {
                println!("{}", p.id);
            }
            0
        }
        _ => usage(),
    };
    std::process::exit(code);
}
