//! Shared numeric oracle helpers for C06-C10, C20: float element trait, exact sums, budgets.

use crate::exact::*;
use crate::layout::El;
use num_traits::{Float, FromPrimitive};
use std::ops::AddAssign;

pub trait Fl: Float + FromPrimitive + AddAssign + El + std::fmt::LowerExp + 'static {
    /// unit roundoff
    const U: f64;
    const TINY: f64;
    const IS32: bool;
    fn to64(self) -> f64;
    fn from64(x: f64) -> Self;
    fn from_bits64(b: u64) -> Self;
    fn bits64(self) -> u64;
}

impl Fl for f64 {
    const U: f64 = 1.1102230246251565e-16; // 2^-53
    const TINY: f64 = 1e-290;
    const IS32: bool = false;
    fn to64(self) -> f64 {
        self
    }
    fn from64(x: f64) -> Self {
        x
    }
    fn from_bits64(b: u64) -> Self {
        f64::from_bits(b)
    }
    fn bits64(self) -> u64 {
        self.to_bits()
    }
}

impl Fl for f32 {
    const U: f64 = 5.960464477539063e-08; // 2^-24
    const TINY: f64 = 1e-36;
    const IS32: bool = true;
    fn to64(self) -> f64 {
        self as f64
    }
    fn from64(x: f64) -> Self {
        x as f32
    }
    fn from_bits64(b: u64) -> Self {
        f32::from_bits(b as u32)
    }
    fn bits64(self) -> u64 {
        self.to_bits() as u64
    }
}

pub fn dy<F: Fl>(x: F) -> Dy {
    Dy::from_f64(x.to64())
}

/// gamma = (2n+8) u
pub fn gamma<F: Fl>(n: usize) -> f64 {
    (2.0 * n as f64 + 8.0) * F::U
}

pub fn sum_dy(it: impl Iterator<Item = Dy>) -> Dy {
    let mut s = Dy::zero();
    for x in it {
        s = s.add(&x);
    }
    s
}

/// Accept `got` as an approximation of the exactly known `exact` (given as an f64 rounded
/// once from the exact rational) within `tol` (+ one rounding of the reference).
pub fn close(got: f64, exact: f64, tol: f64, u: f64) -> bool {
    if got.is_nan() || exact.is_nan() {
        return false;
    }
    if got == exact {
        return true;
    }
    (got - exact).abs() <= tol * (1.0 + 1e-9) + 4.0 * u * exact.abs()
}

/// Neumaier compensated summation in f64.
pub fn comp_sum(it: impl Iterator<Item = f64>) -> f64 {
    let mut s = 0.0f64;
    let mut c = 0.0f64;
    for x in it {
        let t = s + x;
        if s.abs() >= x.abs() {
            c += (s - t) + x;
        } else {
            c += (x - t) + s;
        }
        s = t;
    }
    s + c
}

/// 1/x to ~200 bits as a dyadic.
pub fn recip_dy(x: &Dy) -> Dy {
    use num_bigint::BigInt;
    use num_traits::One;
    let k = 260i64;
    let num: BigInt = BigInt::one() << (k as usize + x.m.bits() as usize);
    let q = num / &x.m;
    Dy { m: q, e: -(k + x.m.bits() as i64) - x.e }
}
