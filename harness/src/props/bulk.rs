//! C18: bulk routines equal their single-item counterparts item by item.

use crate::core::*;
use crate::gen::*;
use crate::layout::*;
use crate::props::quant::*;
use crate::props::sel::BulkCase;
use crate::qoracle::*;
use crate::{dispatch_ord, ensure, fail};
use ndarray::{arr1, ArrayD, Axis, IxDyn};
use ndarray_stats::{Sort1dExt, SummaryStatisticsExt};
use proptest::prelude::*;
use serde::{Deserialize, Serialize};

// ---------------------------------------------------------------------------------------
// (a) bulk quantiles vs single quantiles

pub fn check_bulk_quant_t<T: QEl>(c: &QCase) -> CheckResult {
    let n = c.shape[c.axis];
    let one_d = matches!(c.api, Api::OneDBulk);
    if !matches!(c.api, Api::AxisBulk | Api::OneDBulk) || n == 0 || (one_d && c.shape.len() != 1) || c.pivots.is_empty() {
        return Ok(Info::discarded());
    }
    if c.strat == Strat::Linear && matches!(c.ty, Ty::I64 | Ty::U64 | Ty::Usize) && c.data.iter().any(|v| v.abs() >= (1i128 << 52)) {
        return Ok(Info::discarded());
    }
    let qs = resolve_qs(c);
    let lanes = sorted_lanes(c);
    if !strict() {
        for l in &lanes {
            for &q in &qs {
                if lane_hits_d5(c.ty, c.strat, l, q) {
                    return Ok(Info::excluded());
                }
            }
        }
    }
    let bulk = match run_call::<T>(c, &qs, &c.pivots[0]) {
        Err(p) => fail!("panic", "bulk quantile call panicked: {}", p),
        Ok(Err(e)) => fail!("error-kind", "bulk quantile call returned Err({:?})", e),
        Ok(Ok(r)) => r.result,
    };
    ensure!(bulk.shape()[c.axis] == qs.len(), "shape", "bulk result has {} entries along the axis for {} requested quantiles", bulk.shape()[c.axis], qs.len());
    let pv_single = c.pivots.last().unwrap();
    let mut single_case = c.clone();
    single_case.api = if one_d { Api::OneDSingle } else { Api::AxisSingle };
    for (j, &q) in qs.iter().enumerate() {
        let single = match run_call::<T>(&single_case, &[q], pv_single) {
            Err(p) => fail!("panic", "single quantile call for q[{}]={:e} panicked: {}", j, q, p),
            Ok(Err(e)) => fail!("error-kind", "single quantile call returned Err({:?})", e),
            Ok(Ok(r)) => r.result,
        };
        let slice = bulk.index_axis(Axis(c.axis), j);
        ensure!(
            slice.shape() == single.shape() && slice.iter().zip(single.iter()).all(|(a, b)| a == b),
            "wrong-value",
            "slice {} of the bulk result ({:?}) differs from the single-quantile result for q={:e} ({:?}); type {:?}, strategy {:?}, shape {:?}, axis {}, all q {:?}",
            j,
            slice.iter().collect::<Vec<_>>(),
            q,
            single.iter().collect::<Vec<_>>(),
            c.ty,
            c.strat,
            c.shape,
            c.axis,
            qs
        );
    }
    // non-trivial: request list of length >= 2 with a repeat or a shared index, lane length >= 3
    let mut idxs: Vec<(usize, usize)> = qs.iter().map(|&q| { let r = &readings(q, n)[0]; (r.lo, r.hi) }).collect();
    let unsorted = qs.windows(2).any(|w| w[0] > w[1]);
    let repeat = { let mut s = qs.clone(); s.sort_by(|a, b| a.partial_cmp(b).unwrap()); s.windows(2).any(|w| w[0] == w[1]) };
    idxs.sort_unstable();
    let shared = idxs.windows(2).any(|w| w[0].0 == w[1].0 || w[0].1 == w[1].1 || w[0].1 == w[1].0);
    Ok(Info::new(qs.len() >= 2 && (repeat || shared) && n >= 3)
        .class("bulk-quantiles")
        .class(c.strat.class())
        .class(c.layout.class())
        .class_if(unsorted, "requests:unsorted")
        .class_if(repeat, "requests:repeated")
        .class_if(shared, "requests:shared-index")
        .class_if(qs.is_empty(), "requests:empty")
        .class_if(qs.len() >= 64, "requests>=64")
        .class_if(n >= 1024, "lane>=1024"))
}

pub fn check_bulk_quant(c: &QCase) -> CheckResult {
    dispatch_ord!(c.ty, check_bulk_quant_t(c))
}

fn bulk_qcase_strategy(max_lane: usize) -> impl Strategy<Value = QCase> {
    qcase_strategy(max_lane, true, true).prop_map(|mut c| {
        c.api = if c.shape.len() == 1 && c.qs.len() % 2 == 1 { Api::OneDBulk } else { Api::AxisBulk };
        c
    })
    .prop_flat_map(|c| {
        // request lists of 0..32 with deliberate repeats / shared indexes
        let n = c.shape[c.axis].max(1);
        let _ = n;
        (Just(c), proptest::collection::vec(qspec_strategy(), 0..33), proptest::collection::vec(any::<u8>(), 0..6))
    })
    .prop_map(|(mut c, mut qs, dups)| {
        // duplicate some requests at generated positions
        for d in dups {
            if !qs.is_empty() {
                let k = d as usize % qs.len();
                let q = qs[k];
                let pos = (d as usize * 7) % (qs.len() + 1);
                qs.insert(pos, q);
            }
        }
        qs.truncate(32);
        c.qs = qs;
        c
    })
}

// ---------------------------------------------------------------------------------------
// (b) bulk selection vs single selection

pub fn check_bulk_select(c: &BulkCase) -> CheckResult {
    let n = c.values.len();
    if c.indexes.iter().any(|&i| i >= n) {
        return Ok(Info::discarded());
    }
    let mut buf = make_buf(&c.values, c.offset, c.stride, 1);
    c.pivots.install();
    let idx = arr1(&c.indexes);
    let res = {
        let mut v = view1(&mut buf, c.offset, n, c.stride);
        catch(move || v.get_many_from_sorted_mut(&idx))
    };
    Pivots::uninstall();
    let map = match res {
        Ok(m) => m,
        Err(p) => fail!("panic", "get_many_from_sorted_mut({:?}) panicked: {}", c.indexes, p),
    };
    let mut want: Vec<usize> = c.indexes.clone();
    want.sort_unstable();
    want.dedup();
    ensure!(map.len() == want.len(), "wrong-value", "bulk selection returned {} entries for {} distinct requested indexes", map.len(), want.len());
    for &i in &want {
        let mut buf2 = make_buf(&c.values, c.offset, c.stride, 1);
        let single = {
            let mut v = view1(&mut buf2, c.offset, n, c.stride);
            match catch(move || v.get_from_sorted_mut(i)) {
                Ok(x) => x,
                Err(p) => fail!("panic", "get_from_sorted_mut({}) panicked: {}", i, p),
            }
        };
        ensure!(
            map.get(&i) == Some(&single),
            "wrong-value",
            "bulk selection entry for index {} is {:?}, single selection gives {} (values {:?}, requests {:?})",
            i,
            map.get(&i),
            single,
            c.values,
            c.indexes
        );
    }
    Ok(Info::new(c.indexes.len() >= 2 && want.len() < c.indexes.len() && n >= 3)
        .class("bulk-selection")
        .class_if(n >= 1024, "array>=1024")
        .class_if(n >= 2 && want.first() == Some(&0) && want.last() == Some(&(n - 1)), "both-extremes-requested")
        .class_if(want.len() >= 32 && want[want.len() - 1] - want[0] == want.len() - 1, "consecutive-block(>=32)"))
}

fn bulk_select_strategy(max_len: usize) -> impl Strategy<Value = BulkCase> {
    (
        prop_oneof![
            proptest::collection::vec(0i64..4, 1..max_len),
            proptest::collection::vec(-50i64..50, 1..max_len),
            proptest::collection::vec(any::<i64>(), 1..max_len),
        ],
        proptest::collection::vec(any::<u16>(), 0..33),
        prop_oneof![Just(1isize), Just(2isize), Just(-1isize), Just(-3isize)],
        0usize..3,
        pivots_strategy(),
    )
        .prop_map(|(values, ps, stride, offset, pivots)| {
            let n = values.len();
            let mut indexes: Vec<usize> = ps.iter().map(|&p| (p as usize * n) >> 16).collect();
            // force a repeat
            if indexes.len() >= 2 && ps[0] % 2 == 0 {
                let x = indexes[0];
                indexes.push(x);
            }
            BulkCase { values, indexes, stride, offset, pivots }
        })
}

// ---------------------------------------------------------------------------------------
// (c) central_moments(p)[k] == central_moment(k), bit for bit

#[derive(Clone, Debug, Serialize, Deserialize, Hash)]
pub struct MomentsCase {
    pub f32_: bool,
    /// bits of the f64 (or f32) data
    pub data: Vec<u64>,
    pub shape: Vec<usize>,
    pub layout: LayoutSpec,
    pub order: u16,
}

pub fn check_moments(c: &MomentsCase) -> CheckResult {
    if c.data.is_empty() {
        return Ok(Info::discarded());
    }
    let mut varied = false;
    if c.f32_ {
        let data: Vec<f32> = c.data.iter().map(|&b| f32::from_bits(b as u32)).collect();
        varied = data.iter().any(|x| *x != data[0]);
        let laid = Laid::new(&c.layout, &c.shape, &data);
        let v = laid.view();
        let all = match catch(|| v.central_moments(c.order)) {
            Ok(Ok(a)) => a,
            Ok(Err(e)) => fail!("error-kind", "central_moments({}) returned Err({:?}) on non-empty data", c.order, e),
            Err(p) => fail!("panic", "central_moments({}) panicked: {}", c.order, p),
        };
        ensure!(all.len() == c.order as usize + 1, "shape", "central_moments({}) returned {} values", c.order, all.len());
        for k in 0..=c.order {
            let one = match catch(|| v.central_moment(k)) {
                Ok(Ok(a)) => a,
                Ok(Err(e)) => fail!("error-kind", "central_moment({}) returned Err({:?})", k, e),
                Err(p) => fail!("panic", "central_moment({}) panicked: {}", k, p),
            };
            ensure!(
                one.to_bits() == all[k as usize].to_bits() || (one.is_nan() && all[k as usize].is_nan()),
                "wrong-value",
                "central_moments({})[{}] = {:e} ({:#x}) but central_moment({}) = {:e} ({:#x}); data {:?}",
                c.order,
                k,
                all[k as usize],
                all[k as usize].to_bits(),
                k,
                one,
                one.to_bits(),
                data
            );
        }
    } else {
        let data: Vec<f64> = c.data.iter().map(|&b| f64::from_bits(b)).collect();
        varied |= data.iter().any(|x| *x != data[0]);
        let laid = Laid::new(&c.layout, &c.shape, &data);
        let v = laid.view();
        let all = match catch(|| v.central_moments(c.order)) {
            Ok(Ok(a)) => a,
            Ok(Err(e)) => fail!("error-kind", "central_moments({}) returned Err({:?}) on non-empty data", c.order, e),
            Err(p) => fail!("panic", "central_moments({}) panicked: {}", c.order, p),
        };
        ensure!(all.len() == c.order as usize + 1, "shape", "central_moments({}) returned {} values", c.order, all.len());
        for k in 0..=c.order {
            let one = match catch(|| v.central_moment(k)) {
                Ok(Ok(a)) => a,
                Ok(Err(e)) => fail!("error-kind", "central_moment({}) returned Err({:?})", k, e),
                Err(p) => fail!("panic", "central_moment({}) panicked: {}", k, p),
            };
            ensure!(
                one.to_bits() == all[k as usize].to_bits() || (one.is_nan() && all[k as usize].is_nan()),
                "wrong-value",
                "central_moments({})[{}] = {:e} ({:#x}) but central_moment({}) = {:e} ({:#x}); data {:?}",
                c.order,
                k,
                all[k as usize],
                all[k as usize].to_bits(),
                k,
                one,
                one.to_bits(),
                data
            );
        }
    }
    Ok(Info::new(c.order >= 2 && c.data.len() >= 3 && varied).class("bulk-moments").class_if(c.f32_, "type:f32").class_if(!c.f32_, "type:f64"))
}

fn moments_strategy() -> impl Strategy<Value = MomentsCase> {
    (any::<bool>(), 1usize..=3)
        .prop_flat_map(|(f32_, nd)| (Just(f32_), shape_strategy(nd, if nd == 1 { 40 } else { 6 }, 60, false), layout_strategy(nd), 0u16..=10))
        .prop_flat_map(|(f32_, shape, layout, order)| {
            let total: usize = shape.iter().product();
            let data = if f32_ {
                proptest::collection::vec(moderate_f32().prop_map(|x| x.to_bits() as u64), total).boxed()
            } else {
                proptest::collection::vec(moderate_f64().prop_map(|x| x.to_bits()), total).boxed()
            };
            (Just((f32_, shape, layout, order)), data)
        })
        .prop_map(|((f32_, shape, layout, order), data)| MomentsCase { f32_, data, shape, layout, order })
}

// ---------------------------------------------------------------------------------------
// (d) per-axis weighted sum / mean / var / std vs the whole-array routine on each lane

/// positions (mod len) whose data element is replaced by +inf / NaN (float types only)
#[derive(Clone, Debug, Serialize, Deserialize, Hash, Default)]
pub struct NonFinite {
    pub inf_at: Vec<u16>,
    pub nan_at: Vec<u16>,
}

#[derive(Clone, Debug, Serialize, Deserialize, Hash)]
pub struct AxisWCase {
    /// 0 = f64, 1 = f32, 2 = i64
    pub ty: u8,
    pub shape: Vec<usize>,
    pub axis: usize,
    pub layout: LayoutSpec,
    /// stride / reversal of the weights view
    pub w_step: usize,
    pub w_rev: bool,
    /// data and weights as small integers scaled by 2^-k (exactly representable)
    pub data: Vec<i32>,
    pub weights: Vec<u16>,
    pub scale_pow: u8,
    /// ddof numerator / 4
    pub ddof4: u8,
    #[serde(default)]
    pub non_finite: NonFinite,
}

fn wlayout(step: usize, rev: bool) -> LayoutSpec {
    LayoutSpec { perm: vec![0], steps: vec![step.max(1)], rev: vec![rev], pad_front: vec![1], pad_back: vec![0] }
}

macro_rules! axis_float_check {
    ($c:expr, $t:ty, $u:expr) => {{
        let c: &AxisWCase = $c;
        let sc = (2.0 as $t).powi(-(c.scale_pow as i32 % 8));
        // scale_pow >= 8 selects the ill-conditioned class: large common offset, small spread
        let off: $t = if c.scale_pow >= 8 { (2.0 as $t).powi(if std::mem::size_of::<$t>() == 4 { 9 } else { 20 + (c.scale_pow as i32 % 5) }) } else { 0.0 };
        let mut data: Vec<$t> = c.data.iter().map(|&v| off + v as $t * sc * (if c.scale_pow >= 8 { 1.0 / 2048.0 } else { 1.0 })).collect();
        if !data.is_empty() {
            let len = data.len();
            for &p in &c.non_finite.inf_at {
                data[p as usize % len] = <$t>::INFINITY;
            }
            for &p in &c.non_finite.nan_at {
                data[p as usize % len] = <$t>::NAN;
            }
        }
        let has_non_finite = data.iter().any(|x| !x.is_finite());
        let n = c.shape[c.axis];
        let weights: Vec<$t> = c.weights.iter().take(n).map(|&w| w as $t * (0.25 as $t)).collect();
        let laid = Laid::new(&c.layout, &c.shape, &data);
        let wl = Laid::new(&wlayout(c.w_step, c.w_rev), &[n], &weights);
        let v = laid.view();
        let wv = wl.view().into_dimensionality::<ndarray::Ix1>().unwrap();
        let wo = ndarray::Array1::from(weights.clone());
        let ddof = (c.ddof4 % 5) as $t * (0.25 as $t);
        let wsum: f64 = weights.iter().map(|&w| w as f64).sum();
        let lanes = lane_indexes(&c.shape, c.axis);
        let ax = Axis(c.axis);
        let u: f64 = $u;
        let gamma = (2.0 * n as f64 + 8.0) * u;
        let mut bit_equal = true;
        // weighted_sum_axis
        let s_axis = match catch(|| v.weighted_sum_axis(ax, &wv)) {
            Ok(Ok(a)) => a,
            Ok(Err(e)) => fail!("error-kind", "weighted_sum_axis returned Err({:?})", e),
            Err(p) => fail!("panic", "weighted_sum_axis panicked: {}", p),
        };
        let flat: Vec<$t> = s_axis.iter().cloned().collect();
        ensure!(flat.len() == lanes.len(), "shape", "weighted_sum_axis returned {} entries for {} lanes", flat.len(), lanes.len());
        for (l, idx) in lanes.iter().enumerate() {
            let lane: Vec<$t> = idx.iter().map(|&i| data[i]).collect();
            let la = ndarray::Array1::from(lane.clone());
            let whole = la.weighted_sum(&wo).unwrap();
            let tabs: f64 = lane.iter().zip(&weights).map(|(&x, &w)| (x as f64 * w as f64).abs()).filter(|t| t.is_finite()).sum();
            let tol = 2.0 * gamma * tabs * 1.001 + f64::MIN_POSITIVE;
            if whole.to_bits() != flat[l].to_bits() && !(whole.is_nan() && flat[l].is_nan()) { bit_equal = false; }
            let same_special = (whole.is_nan() && flat[l].is_nan()) || (whole.is_infinite() && whole == flat[l]);
            ensure!(same_special || ((whole as f64) - (flat[l] as f64)).abs() <= tol, "tolerance", "weighted_sum_axis lane {} = {:e}, weighted_sum of that lane = {:e} (tol {:e}); lane {:?} weights {:?}", l, flat[l], whole, tol, lane, weights);
        }
        if wsum > 0.0 && n > 0 {
            let m_axis = match catch(|| v.weighted_mean_axis(ax, &wv)) {
                Ok(Ok(a)) => a,
                Ok(Err(e)) => fail!("error-kind", "weighted_mean_axis returned Err({:?})", e),
                Err(p) => fail!("panic", "weighted_mean_axis panicked: {}", p),
            };
            let flat: Vec<$t> = m_axis.iter().cloned().collect();
            for (l, idx) in lanes.iter().enumerate() {
                let lane: Vec<$t> = idx.iter().map(|&i| data[i]).collect();
                let la = ndarray::Array1::from(lane.clone());
                let whole = la.weighted_mean(&wo).unwrap();
                let tabs: f64 = lane.iter().zip(&weights).map(|(&x, &w)| (x as f64 * w as f64).abs()).filter(|t| t.is_finite()).sum();
                let tol = 2.0 * (gamma + 4.0 * u) * (tabs / wsum) * 2.0 * 1.001 + f64::MIN_POSITIVE;
                if whole.to_bits() != flat[l].to_bits() && !(whole.is_nan() && flat[l].is_nan()) { bit_equal = false; }
                let same_special = (whole.is_nan() && flat[l].is_nan()) || (whole.is_infinite() && whole == flat[l]);
                ensure!(same_special || ((whole as f64) - (flat[l] as f64)).abs() <= tol, "tolerance", "weighted_mean_axis lane {} = {:e}, weighted_mean of that lane = {:e} (tol {:e}); lane {:?} weights {:?}", l, flat[l], whole, tol, lane, weights);
            }
            if wsum - (ddof as f64) > 0.25 && !has_non_finite {
                let v_axis = match catch(|| v.weighted_var_axis(ax, &wv, ddof)) {
                    Ok(Ok(a)) => a,
                    Ok(Err(e)) => fail!("error-kind", "weighted_var_axis returned Err({:?})", e),
                    Err(p) => fail!("panic", "weighted_var_axis panicked: {}", p),
                };
                let s_axis = match catch(|| v.weighted_std_axis(ax, &wv, ddof)) {
                    Ok(Ok(a)) => a,
                    Ok(Err(e)) => fail!("error-kind", "weighted_std_axis returned Err({:?})", e),
                    Err(p) => fail!("panic", "weighted_std_axis panicked: {}", p),
                };
                let vflat: Vec<$t> = v_axis.iter().cloned().collect();
                let sflat: Vec<$t> = s_axis.iter().cloned().collect();
                for (l, idx) in lanes.iter().enumerate() {
                    let lane: Vec<$t> = idx.iter().map(|&i| data[i]).collect();
                    let la = ndarray::Array1::from(lane.clone());
                    let whole_v = la.weighted_var(&wo, ddof).unwrap();
                    let whole_s = la.weighted_std(&wo, ddof).unwrap();
                    // range-based budget (DESIGN.md appendix C), both sides may err by it
                    let used: Vec<f64> = lane.iter().zip(&weights).filter(|(_, &w)| w != 0.0).map(|(&x, _)| x as f64).collect();
                    let (mn, mx) = used.iter().fold((f64::INFINITY, f64::NEG_INFINITY), |(a, b), &x| (a.min(x), b.max(x)));
                    let r = if used.is_empty() { 0.0 } else { mx - mn };
                    let mabs = used.iter().fold(0.0f64, |a, &x| a.max(x.abs()));
                    let d = wsum - ddof as f64;
                    let tol_v = 2.0 * (gamma * (wsum / d) * r * (r + mabs) * 1.001 + (whole_v as f64).abs() * gamma * wsum / d) + f64::MIN_POSITIVE;
                    if whole_v.to_bits() != vflat[l].to_bits() || whole_s.to_bits() != sflat[l].to_bits() { bit_equal = false; }
                    ensure!(((whole_v as f64) - (vflat[l] as f64)).abs() <= tol_v || (whole_v.is_nan() && vflat[l].is_nan()), "tolerance", "weighted_var_axis lane {} = {:e}, weighted_var of that lane = {:e} (tol {:e}); lane {:?} weights {:?} ddof {}", l, vflat[l], whole_v, tol_v, lane, weights, ddof);
                    let sq_a = (sflat[l] as f64) * (sflat[l] as f64);
                    let sq_w = (whole_s as f64) * (whole_s as f64);
                    ensure!((sq_a - sq_w).abs() <= tol_v + 8.0 * u * sq_w.abs() || (whole_s.is_nan() && sflat[l].is_nan()), "tolerance", "weighted_std_axis lane {} = {:e}, weighted_std of that lane = {:e}; lane {:?} weights {:?} ddof {}", l, sflat[l], whole_s, lane, weights, ddof);
                }
            }
        }
        bit_equal
    }};
}

pub fn check_axis_weighted(c: &AxisWCase) -> CheckResult {
    if c.shape.is_empty() || c.axis >= c.shape.len() || c.data.len() != c.shape.iter().product::<usize>() || c.weights.len() < c.shape[c.axis] {
        return Ok(Info::discarded());
    }
    let n = c.shape[c.axis];
    let bit_equal = match c.ty % 3 {
        0 => axis_float_check!(c, f64, 2f64.powi(-53)),
        1 => axis_float_check!(c, f32, 2f64.powi(-24)),
        _ => {
            // integers: exact
            let data: Vec<i64> = c.data.iter().map(|&v| v as i64).collect();
            let weights: Vec<i64> = c.weights.iter().take(n).map(|&w| w as i64 % 64).collect();
            let laid = Laid::new(&c.layout, &c.shape, &data);
            let wl = Laid::new(&wlayout(c.w_step, c.w_rev), &[n], &weights);
            let v = laid.view();
            let wv = wl.view().into_dimensionality::<ndarray::Ix1>().unwrap();
            let wo = ndarray::Array1::from(weights.clone());
            let lanes = lane_indexes(&c.shape, c.axis);
            let s_axis = match catch(|| v.weighted_sum_axis(Axis(c.axis), &wv)) {
                Ok(Ok(a)) => a,
                Ok(Err(e)) => fail!("error-kind", "weighted_sum_axis returned Err({:?})", e),
                Err(p) => fail!("panic", "weighted_sum_axis panicked: {}", p),
            };
            let flat: Vec<i64> = s_axis.iter().cloned().collect();
            ensure!(flat.len() == lanes.len(), "shape", "weighted_sum_axis returned {} entries for {} lanes", flat.len(), lanes.len());
            let wsum: i64 = weights.iter().sum();
            let m_axis: Option<ArrayD<i64>> = if wsum != 0 && n > 0 && !data.is_empty() {
                match catch(|| v.weighted_mean_axis(Axis(c.axis), &wv)) {
                    Ok(Ok(a)) => Some(a),
                    Ok(Err(e)) => fail!("error-kind", "weighted_mean_axis returned Err({:?})", e),
                    Err(p) => fail!("panic", "weighted_mean_axis panicked: {}", p),
                }
            } else {
                None
            };
            for (l, idx) in lanes.iter().enumerate() {
                let lane: Vec<i64> = idx.iter().map(|&i| data[i]).collect();
                let la = ndarray::Array1::from(lane.clone());
                let whole = la.weighted_sum(&wo).unwrap();
                let exact: i128 = lane.iter().zip(&weights).map(|(&x, &w)| x as i128 * w as i128).sum();
                ensure!(whole == flat[l] && exact == flat[l] as i128, "wrong-value", "weighted_sum_axis lane {} = {}, whole-array routine on the lane = {}, exact = {}; lane {:?} weights {:?}", l, flat[l], whole, exact, lane, weights);
                if let Some(m) = &m_axis {
                    let mflat = m.iter().nth(l).cloned().unwrap();
                    let wm = la.weighted_mean(&wo).unwrap();
                    ensure!(mflat == wm && mflat as i128 == exact / wsum as i128, "wrong-value", "weighted_mean_axis lane {} = {}, whole-array routine = {}, exact sum/weight sum = {}", l, mflat, wm, exact / wsum as i128);
                }
            }
            true
        }
    };
    let nonuniform = c.weights.iter().take(n).any(|&w| w != c.weights[0]);
    Ok(Info::new(n >= 3 && c.shape.len() >= 2 && nonuniform)
        .class("bulk-axis-weighted")
        .class(c.layout.class())
        .class_if(bit_equal, "axis-vs-lane:bit-identical")
        .class_if(!bit_equal, "axis-vs-lane:within-budget-only")
        .class_if(c.w_step > 1 || c.w_rev, "weights:strided-view")
        .class_if(n > 1024, "lane>1024")
        .class_if(n > 4096, "lane>4096")
        .class_if(!c.non_finite.inf_at.is_empty() || !c.non_finite.nan_at.is_empty(), "data:non-finite"))
}

fn axisw_strategy() -> impl Strategy<Value = AxisWCase> {
    (0u8..3, 1usize..=3)
        .prop_flat_map(|(ty, nd)| (Just(ty), shape_strategy(nd, if nd == 1 { 30 } else { 7 }, 120, false), 0..nd, layout_strategy(nd)))
        .prop_flat_map(|(ty, shape, axis, layout)| {
            let total: usize = shape.iter().product();
            let n = shape[axis];
            let weights = prop_oneof![
                3 => proptest::collection::vec(0u16..40, n),
                1 => proptest::collection::vec(prop_oneof![Just(0u16), 1u16..1000], n),
                1 => proptest::collection::vec(Just(4u16), n),
            ];
            (
                Just((ty, shape, axis, layout)),
                proptest::collection::vec(-2000i32..2000, total),
                weights,
                1usize..3,
                any::<bool>(),
                0u8..11,
                0u8..5,
                prop_oneof![
                    5 => Just(NonFinite::default()),
                    1 => (proptest::collection::vec(any::<u16>(), 0..3), proptest::collection::vec(any::<u16>(), 0..2)).prop_map(|(inf_at, nan_at)| NonFinite { inf_at, nan_at }),
                ],
            )
        })
        .prop_map(|((ty, shape, axis, layout), data, weights, w_step, w_rev, scale_pow, ddof4, non_finite)| AxisWCase { ty, shape, axis, layout, w_step, w_rev, data, weights, scale_pow, ddof4, non_finite })
}

/// Long lanes (beyond 1024 / 4096 elements) for the per-axis weighted routines.
fn axisw_long_strategy(max_lane: usize) -> impl Strategy<Value = AxisWCase> {
    (0u8..3, long_len(600, max_lane), 1usize..=3, 0usize..3, any::<u64>(), 0u8..4)
        .prop_flat_map(|(ty, lane, others, place, seed, wclass)| {
            let (shape, axis) = match place {
                0 => (vec![lane], 0),
                1 => (vec![lane, others], 0),
                _ => (vec![others, lane], 1),
            };
            let nd = shape.len();
            let total: usize = shape.iter().product();
            let mut next = splitmix(seed);
            let data: Vec<i32> = (0..total).map(|_| (next() % 4000) as i32 - 2000).collect();
            let weights: Vec<u16> = (0..lane)
                .map(|_| match wclass {
                    0 => (next() % 40) as u16,
                    1 => if next() % 3 == 0 { 0 } else { (next() % 1000) as u16 },
                    2 => 4,
                    _ => (next() % 7) as u16 + 1,
                })
                .collect();
            (Just((ty, shape, axis, data, weights)), layout_strategy(nd), 1usize..3, any::<bool>(), 0u8..11, 0u8..5)
        })
        .prop_map(|((ty, shape, axis, data, weights), layout, w_step, w_rev, scale_pow, ddof4)| AxisWCase { ty, shape, axis, layout, w_step, w_rev, data, weights, scale_pow, ddof4, non_finite: NonFinite::default() })
}

/// Bulk quantile calls on long lanes with long request lists.
fn bulk_qcase_long_strategy(max_lane: usize) -> impl Strategy<Value = QCase> {
    qcase_long_strategy(max_lane, true).prop_map(|mut c| {
        if !matches!(c.api, Api::AxisBulk | Api::OneDBulk) {
            c.api = if c.shape.len() == 1 && c.data.len() % 2 == 1 { Api::OneDBulk } else { Api::AxisBulk };
            // a single-quantile case carries one request: add the extremes and a repeat
            let q = c.qs[0];
            c.qs.extend([QSpec::Zero, QSpec::One, q]);
        }
        c
    })
}

// ---------------------------------------------------------------------------------------

pub fn run_c18(ctx: &Ctx) {
    let t = ctx.tier();
    ctx.run_proptest("bulk-quant", t.pick(30_000, 1_000_000), bulk_qcase_strategy(t.pick(120, 300)), &check_bulk_quant);
    ctx.run_proptest("bulk-select", t.pick(20_000, 500_000), bulk_select_strategy(t.pick(60, 300)), &check_bulk_select);
    ctx.run_proptest("bulk-moments", t.pick(20_000, 400_000), moments_strategy(), &check_moments);
    ctx.run_proptest("bulk-axis-weighted", t.pick(20_000, 400_000), axisw_strategy(), &check_axis_weighted);
    // long lanes / long request lists
    ctx.run_proptest("bulk-quant-long", t.pick(500, 16_000), bulk_qcase_long_strategy(t.pick(2_500, 5_000)), &check_bulk_quant);
    ctx.run_proptest("bulk-select-long", t.pick(800, 24_000), crate::props::sel::bulk_long_strategy(t.pick(3_000, 6_000)), &check_bulk_select);
    ctx.run_proptest("bulk-axis-weighted-long", t.pick(800, 24_000), axisw_long_strategy(t.pick(5_000, 12_000)), &check_axis_weighted);
}

pub fn replayers() -> Vec<(&'static str, ReplayFn)> {
    vec![
        ("bulk-quant", |v| replay_with::<QCase>(v, &check_bulk_quant)),
        ("bulk-select", |v| replay_with::<BulkCase>(v, &check_bulk_select)),
        ("bulk-moments", |v| replay_with::<MomentsCase>(v, &check_moments)),
        ("bulk-axis-weighted", |v| replay_with::<AxisWCase>(v, &check_axis_weighted)),
        ("bulk-quant-long", |v| replay_with::<QCase>(v, &check_bulk_quant)),
        ("bulk-select-long", |v| replay_with::<BulkCase>(v, &check_bulk_select)),
        ("bulk-axis-weighted-long", |v| replay_with::<AxisWCase>(v, &check_axis_weighted)),
    ]
}

#[allow(dead_code)]
fn _u(_: ArrayD<f64>, _: IxDyn) {}
