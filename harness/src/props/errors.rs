//! C17: every fallible routine reports exactly the documented error.
//! An enumerated decision table (routine x first-input scenario x second-argument scenario x
//! q scenario x element type x layout) with seeded shape instances inside every cell.

use crate::core::*;
use crate::layout::*;
use crate::{ensure, fail};
use ndarray::{aview1, Array1, Array2, ArrayD, ArrayViewD, Axis, Ix1, Ix2, IxDyn};
use ndarray_stats::errors::{MinMaxError, MultiInputError, QuantileError};
use ndarray_stats::histogram::strategies::{Auto, BinsBuildingStrategy, FreedmanDiaconis, Rice, Sqrt, Sturges};
use ndarray_stats::histogram::GridBuilder;
use ndarray_stats::interpolate::{Linear, Lower, Nearest};
use ndarray_stats::{CorrelationExt, DeviationExt, EntropyExt, Quantile1dExt, QuantileExt, SummaryStatisticsExt};
use noisy_float::types::N64;
use serde::{Deserialize, Serialize};

#[derive(Clone, Copy, Debug, Serialize, Deserialize, Hash, PartialEq, Eq)]
pub enum R {
    ArgMin,
    ArgMax,
    Min,
    Max,
    ArgMinSkip,
    ArgMaxSkip,
    QAxis,
    QsAxis,
    QAxisSkip,
    Q1d,
    Qs1d,
    Mean,
    HarmonicMean,
    GeometricMean,
    Kurtosis,
    Skewness,
    CentralMoment,
    CentralMoments,
    WMean,
    WSum,
    WVar,
    WStd,
    WMeanAxis,
    WSumAxis,
    WVarAxis,
    WStdAxis,
    CountEq,
    CountNeq,
    SqL2,
    L2,
    L1,
    Linf,
    Mae,
    Mse,
    Rmse,
    Psnr,
    Entropy,
    Kl,
    CrossEntropy,
    Cov,
    Pearson,
    SqrtS,
    RiceS,
    SturgesS,
    FdS,
    AutoS,
    GridB,
}

pub const ROUTINES: [R; 47] = [
    R::ArgMin, R::ArgMax, R::Min, R::Max, R::ArgMinSkip, R::ArgMaxSkip, R::QAxis, R::QsAxis, R::QAxisSkip, R::Q1d, R::Qs1d,
    R::Mean, R::HarmonicMean, R::GeometricMean, R::Kurtosis, R::Skewness, R::CentralMoment, R::CentralMoments,
    R::WMean, R::WSum, R::WVar, R::WStd, R::WMeanAxis, R::WSumAxis, R::WVarAxis, R::WStdAxis,
    R::CountEq, R::CountNeq, R::SqL2, R::L2, R::L1, R::Linf, R::Mae, R::Mse, R::Rmse, R::Psnr,
    R::Entropy, R::Kl, R::CrossEntropy, R::Cov, R::Pearson, R::SqrtS, R::RiceS, R::SturgesS, R::FdS, R::AutoS, R::GridB,
];

#[derive(Clone, Copy, Debug, PartialEq, Eq)]
enum Kind {
    /// one array, emptiness is the only condition
    Unary,
    /// quantile family: q list + axis
    Quantile { bulk: bool, one_d: bool },
    /// two same-shaped arrays, emptiness guard first
    BinaryGuarded,
    /// two same-shaped arrays, no emptiness guard (weighted_sum)
    BinaryUnguarded,
    /// array + axis + 1-D weights, emptiness guard first
    AxisGuarded,
    /// array + axis + 1-D weights, no emptiness guard (weighted_sum_axis)
    AxisUnguarded,
    /// 2-D matrix (cov / pearson / GridBuilder)
    Matrix,
    /// 1-D data of a bins-building strategy
    Strategy,
}

fn kind(r: R) -> Kind {
    use R::*;
    match r {
        ArgMin | ArgMax | Min | Max | ArgMinSkip | ArgMaxSkip | Mean | HarmonicMean | GeometricMean | Kurtosis | Skewness | CentralMoment | CentralMoments | Entropy => Kind::Unary,
        QAxis | QAxisSkip => Kind::Quantile { bulk: false, one_d: false },
        QsAxis => Kind::Quantile { bulk: true, one_d: false },
        Q1d => Kind::Quantile { bulk: false, one_d: true },
        Qs1d => Kind::Quantile { bulk: true, one_d: true },
        WMean | WVar | WStd | CountEq | CountNeq | SqL2 | L2 | L1 | Linf | Mae | Mse | Rmse | Psnr | Kl | CrossEntropy => Kind::BinaryGuarded,
        WSum => Kind::BinaryUnguarded,
        WMeanAxis | WVarAxis | WStdAxis => Kind::AxisGuarded,
        WSumAxis => Kind::AxisUnguarded,
        Cov | Pearson | GridB => Kind::Matrix,
        SqrtS | RiceS | SturgesS | FdS | AutoS => Kind::Strategy,
    }
}

#[derive(Clone, Debug, Serialize, Deserialize, Hash)]
pub struct ErrCase {
    pub routine: R,
    pub shape_a: Vec<usize>,
    /// second array (binary routines) / weights (axis routines: 1-D)
    pub shape_b: Vec<usize>,
    pub axis: usize,
    /// q values as f64 bits
    pub qs: Vec<u64>,
    /// 0 = float element type, 1 = integer element type (where the routine admits both)
    pub int_ty: bool,
    /// 0 = C layout, 1 = F layout, 2 = stepped/reversed view
    pub layout_kind: u8,
    /// scenario labels (for the evidence classes only)
    pub scen: (u8, u8, u8),
}

#[derive(Clone, Debug, PartialEq)]
pub enum Out {
    Ok,
    Empty,
    Mismatch(Vec<usize>, Vec<usize>),
    InvalidQ(u64),
    Other(String),
    Panic(String),
}

fn from_multi<T>(r: Result<T, MultiInputError>) -> Out {
    match r {
        Ok(_) => Out::Ok,
        Err(MultiInputError::EmptyInput) => Out::Empty,
        Err(MultiInputError::ShapeMismatch(s)) => Out::Mismatch(s.first_shape, s.second_shape),
    }
}
fn from_minmax<T>(r: Result<T, MinMaxError>) -> Out {
    match r {
        Ok(_) => Out::Ok,
        Err(MinMaxError::EmptyInput) => Out::Empty,
        Err(e) => Out::Other(format!("{:?}", e)),
    }
}
fn from_empty<T>(r: Result<T, ndarray_stats::errors::EmptyInput>) -> Out {
    match r {
        Ok(_) => Out::Ok,
        Err(_) => Out::Empty,
    }
}
fn from_q<T>(r: Result<T, QuantileError>) -> Out {
    match r {
        Ok(_) => Out::Ok,
        Err(QuantileError::EmptyInput) => Out::Empty,
        Err(QuantileError::InvalidQuantile(q)) => Out::InvalidQ(q.raw().to_bits()),
    }
}
fn from_bins<T>(r: Result<T, ndarray_stats::histogram::errors::BinsBuildError>) -> Out {
    match r {
        Ok(_) => Out::Ok,
        Err(e) if e.is_empty_input() => Out::Empty,
        Err(e) => Out::Other(format!("{:?}", e)),
    }
}

fn layout_for(kind: u8, nd: usize) -> LayoutSpec {
    match kind % 3 {
        0 => LayoutSpec::c_order(nd),
        1 => LayoutSpec::f_order(nd),
        _ => LayoutSpec { perm: (0..nd).collect(), steps: vec![2; nd], rev: (0..nd).map(|k| k % 2 == 0).collect(), pad_front: vec![1; nd], pad_back: vec![0; nd] },
    }
}

fn fdata(n: usize) -> Vec<f64> {
    // positive, non-constant (so that ln / reciprocal / strategies are well defined)
    (0..n).map(|i| 0.25 + ((i * 7) % 11) as f64 * 0.125).collect()
}
fn idata(n: usize) -> Vec<i32> {
    (0..n).map(|i| ((i * 7) % 11) as i32 + 1).collect()
}

fn valid_q(q: f64) -> bool {
    q >= 0.0 && q <= 1.0
}

/// What the doc comments and the property say this call must return.
fn expected(c: &ErrCase) -> Option<Out> {
    let len_a: usize = c.shape_a.iter().product();
    let k = kind(c.routine);
    Some(match k {
        Kind::Unary => {
            if len_a == 0 {
                Out::Empty
            } else {
                Out::Ok
            }
        }
        Kind::Quantile { bulk, one_d } => {
            if one_d && c.shape_a.len() != 1 {
                return None;
            }
            if c.axis >= c.shape_a.len() || (!bulk && c.qs.is_empty()) {
                return None;
            }
            let qs: Vec<f64> = c.qs.iter().map(|&b| f64::from_bits(b)).collect();
            let used: &[f64] = if bulk { &qs } else { &qs[..1] };
            if let Some(bad) = used.iter().find(|q| !valid_q(**q)) {
                Out::InvalidQ(bad.to_bits())
            } else if c.shape_a[c.axis] == 0 {
                Out::Empty
            } else {
                Out::Ok
            }
        }
        Kind::BinaryGuarded => {
            if len_a == 0 {
                Out::Empty
            } else if c.shape_a != c.shape_b {
                Out::Mismatch(c.shape_a.clone(), c.shape_b.clone())
            } else {
                Out::Ok
            }
        }
        Kind::BinaryUnguarded => {
            if c.shape_a != c.shape_b {
                Out::Mismatch(c.shape_a.clone(), c.shape_b.clone())
            } else {
                Out::Ok
            }
        }
        Kind::AxisGuarded | Kind::AxisUnguarded => {
            if c.axis >= c.shape_a.len() || c.shape_b.len() != 1 {
                return None;
            }
            if k == Kind::AxisGuarded && len_a == 0 {
                Out::Empty
            } else if c.shape_a[c.axis] != c.shape_b[0] {
                Out::Mismatch(c.shape_a.clone(), c.shape_b.clone())
            } else {
                Out::Ok
            }
        }
        Kind::Matrix => {
            if c.shape_a.len() != 2 {
                return None;
            }
            let (v, o) = (c.shape_a[0], c.shape_a[1]);
            match c.routine {
                // zero observations: every ddof >= 0 is ">= the number of observations", a documented panic
                R::Cov if o == 0 => return None,
                // nothing to build from / not an error by its documentation
                R::GridB if o == 0 => return None,
                R::GridB => {
                    if v == 0 {
                        Out::Empty
                    } else if v == 1 {
                        // one observation per column is constant data (the Strategy error)
                        return None;
                    } else {
                        Out::Ok
                    }
                }
                _ => {
                    if v == 0 || o == 0 {
                        Out::Empty
                    } else {
                        Out::Ok
                    }
                }
            }
        }
        Kind::Strategy => {
            if c.shape_a.len() != 1 {
                return None;
            }
            if len_a == 0 {
                Out::Empty
            } else if len_a == 1 {
                // constant data: the Strategy error (C12's business) - not an emptiness/shape/q condition
                return None;
            } else {
                Out::Ok
            }
        }
    })
}

fn call_float(c: &ErrCase) -> Out {
    let la: usize = c.shape_a.iter().product();
    let lb: usize = c.shape_b.iter().product();
    let a = Laid::new(&layout_for(c.layout_kind, c.shape_a.len()), &c.shape_a, &fdata(la));
    let b = Laid::new(&layout_for(c.layout_kind + 1, c.shape_b.len()), &c.shape_b, &fdata(lb));
    let va: ArrayViewD<'_, f64> = a.view();
    let vb: ArrayViewD<'_, f64> = b.view();
    let ax = Axis(c.axis);
    let w1 = || vb.view().into_dimensionality::<Ix1>().unwrap();
    let qs: Vec<N64> = c.qs.iter().map(|&q| N64::unchecked_new(f64::from_bits(q))).collect();
    use R::*;
    match c.routine {
        ArgMin => from_minmax(va.argmin()),
        ArgMax => from_minmax(va.argmax()),
        Min => from_minmax(va.min()),
        Max => from_minmax(va.max()),
        ArgMinSkip => from_empty(va.argmin_skipnan()),
        ArgMaxSkip => from_empty(va.argmax_skipnan()),
        QAxisSkip => {
            let mut o = va.to_owned();
            from_q(o.quantile_axis_skipnan_mut(ax, qs[0], &Linear))
        }
        QAxis | QsAxis | Q1d | Qs1d => {
            let data: Vec<N64> = fdata(la).into_iter().map(N64::unchecked_new).collect();
            let mut l = Laid::new(&layout_for(c.layout_kind, c.shape_a.len()), &c.shape_a, &data);
            let mut v = l.view_mut();
            match c.routine {
                QAxis => from_q(v.quantile_axis_mut(ax, qs[0], &Linear)),
                QsAxis => from_q(v.quantiles_axis_mut(ax, &aview1(&qs), &Nearest)),
                Q1d => from_q(v.into_dimensionality::<Ix1>().unwrap().quantile_mut(qs[0], &Lower)),
                _ => from_q(v.into_dimensionality::<Ix1>().unwrap().quantiles_mut(&aview1(&qs), &Linear)),
            }
        }
        Mean => from_empty(SummaryStatisticsExt::mean(&va)),
        HarmonicMean => from_empty(va.harmonic_mean()),
        GeometricMean => from_empty(va.geometric_mean()),
        Kurtosis => from_empty(va.kurtosis()),
        Skewness => from_empty(va.skewness()),
        CentralMoment => from_empty(va.central_moment(3)),
        CentralMoments => from_empty(va.central_moments(3)),
        WMean => from_multi(va.weighted_mean(&vb)),
        WSum => from_multi(va.weighted_sum(&vb)),
        WVar => from_multi(va.weighted_var(&vb, 0.5)),
        WStd => from_multi(va.weighted_std(&vb, 1.0)),
        WMeanAxis => from_multi(va.weighted_mean_axis(ax, &w1())),
        WSumAxis => from_multi(va.weighted_sum_axis(ax, &w1())),
        WVarAxis => from_multi(va.weighted_var_axis(ax, &w1(), 0.0)),
        WStdAxis => from_multi(va.weighted_std_axis(ax, &w1(), 1.0)),
        CountEq => from_multi(va.count_eq(&vb)),
        CountNeq => from_multi(va.count_neq(&vb)),
        SqL2 => from_multi(va.sq_l2_dist(&vb)),
        L2 => from_multi(va.l2_dist(&vb)),
        L1 => from_multi(va.l1_dist(&vb)),
        Linf => from_multi(va.linf_dist(&vb)),
        Mae => from_multi(va.mean_abs_err(&vb)),
        Mse => from_multi(va.mean_sq_err(&vb)),
        Rmse => from_multi(va.root_mean_sq_err(&vb)),
        Psnr => from_multi(va.peak_signal_to_noise_ratio(&vb, 4.0)),
        Entropy => from_empty(va.entropy()),
        Kl => from_multi(va.kl_divergence(&vb)),
        CrossEntropy => from_multi(va.cross_entropy(&vb)),
        Cov => from_empty(va.view().into_dimensionality::<Ix2>().unwrap().cov(0.0)),
        Pearson => from_empty(va.view().into_dimensionality::<Ix2>().unwrap().pearson_correlation()),
        SqrtS | RiceS | SturgesS | FdS | AutoS | GridB => {
            let data: Vec<N64> = fdata(la).into_iter().map(N64::unchecked_new).collect();
            let l = Laid::new(&layout_for(c.layout_kind, c.shape_a.len()), &c.shape_a, &data);
            let v = l.view();
            match c.routine {
                SqrtS => from_bins(Sqrt::from_array(&v.into_dimensionality::<Ix1>().unwrap())),
                RiceS => from_bins(Rice::from_array(&v.into_dimensionality::<Ix1>().unwrap())),
                SturgesS => from_bins(Sturges::from_array(&v.into_dimensionality::<Ix1>().unwrap())),
                FdS => from_bins(FreedmanDiaconis::from_array(&v.into_dimensionality::<Ix1>().unwrap())),
                AutoS => from_bins(Auto::from_array(&v.into_dimensionality::<Ix1>().unwrap())),
                _ => from_bins(GridBuilder::<Sturges<N64>>::from_array(&v.into_dimensionality::<Ix2>().unwrap())),
            }
        }
    }
}

/// The integer-typed variant of the routines that admit integer elements; None otherwise.
fn call_int(c: &ErrCase) -> Option<Out> {
    let la: usize = c.shape_a.iter().product();
    let lb: usize = c.shape_b.iter().product();
    let a = Laid::new(&layout_for(c.layout_kind, c.shape_a.len()), &c.shape_a, &idata(la));
    let b = Laid::new(&layout_for(c.layout_kind + 1, c.shape_b.len()), &c.shape_b, &idata(lb));
    let va: ArrayViewD<'_, i32> = a.view();
    let vb: ArrayViewD<'_, i32> = b.view();
    let ax = Axis(c.axis);
    let qs: Vec<N64> = c.qs.iter().map(|&q| N64::unchecked_new(f64::from_bits(q))).collect();
    use R::*;
    Some(match c.routine {
        ArgMin => from_minmax(va.argmin()),
        ArgMax => from_minmax(va.argmax()),
        Min => from_minmax(va.min()),
        Max => from_minmax(va.max()),
        ArgMinSkip | ArgMaxSkip | QAxisSkip => {
            let data: Vec<Option<i32>> = idata(la).into_iter().map(Some).collect();
            let mut l = Laid::new(&layout_for(c.layout_kind, c.shape_a.len()), &c.shape_a, &data);
            match c.routine {
                ArgMinSkip => from_empty(l.view().argmin_skipnan()),
                ArgMaxSkip => from_empty(l.view().argmax_skipnan()),
                _ => from_q(l.view_mut().quantile_axis_skipnan_mut(ax, qs[0], &Nearest)),
            }
        }
        QAxis | QsAxis | Q1d | Qs1d => {
            let mut l = Laid::new(&layout_for(c.layout_kind, c.shape_a.len()), &c.shape_a, &idata(la));
            let mut v = l.view_mut();
            match c.routine {
                QAxis => from_q(v.quantile_axis_mut(ax, qs[0], &Nearest)),
                QsAxis => from_q(v.quantiles_axis_mut(ax, &aview1(&qs), &Linear)),
                Q1d => from_q(v.into_dimensionality::<Ix1>().unwrap().quantile_mut(qs[0], &Linear)),
                _ => from_q(v.into_dimensionality::<Ix1>().unwrap().quantiles_mut(&aview1(&qs), &Lower)),
            }
        }
        Mean => from_empty(SummaryStatisticsExt::mean(&va)),
        WMean => from_multi(va.weighted_mean(&vb)),
        WSum => from_multi(va.weighted_sum(&vb)),
        WMeanAxis => from_multi(va.weighted_mean_axis(ax, &vb.view().into_dimensionality::<Ix1>().unwrap())),
        WSumAxis => from_multi(va.weighted_sum_axis(ax, &vb.view().into_dimensionality::<Ix1>().unwrap())),
        CountEq => from_multi(va.count_eq(&vb)),
        CountNeq => from_multi(va.count_neq(&vb)),
        SqL2 => from_multi(va.sq_l2_dist(&vb)),
        L2 => from_multi(va.l2_dist(&vb)),
        L1 => from_multi(va.l1_dist(&vb)),
        Linf => from_multi(va.linf_dist(&vb)),
        Mae => from_multi(va.mean_abs_err(&vb)),
        Mse => from_multi(va.mean_sq_err(&vb)),
        Rmse => from_multi(va.root_mean_sq_err(&vb)),
        Psnr => from_multi(va.peak_signal_to_noise_ratio(&vb, 4)),
        SqrtS | RiceS | SturgesS | FdS | AutoS | GridB => {
            let v = a.view();
            match c.routine {
                SqrtS => from_bins(Sqrt::from_array(&v.into_dimensionality::<Ix1>().unwrap())),
                RiceS => from_bins(Rice::from_array(&v.into_dimensionality::<Ix1>().unwrap())),
                SturgesS => from_bins(Sturges::from_array(&v.into_dimensionality::<Ix1>().unwrap())),
                FdS => from_bins(FreedmanDiaconis::from_array(&v.into_dimensionality::<Ix1>().unwrap())),
                AutoS => from_bins(Auto::from_array(&v.into_dimensionality::<Ix1>().unwrap())),
                _ => from_bins(GridBuilder::<Sqrt<i32>>::from_array(&v.into_dimensionality::<Ix2>().unwrap())),
            }
        }
        _ => return None,
    })
}

/// Signature of the open known finding D6: cov on a matrix with zero variables.
pub fn d6_signature(c: &ErrCase) -> bool {
    c.routine == R::Cov && c.shape_a.len() == 2 && c.shape_a[0] == 0 && c.shape_a[1] >= 1
}

pub fn check_err(c: &ErrCase) -> CheckResult {
    let want = match expected(c) {
        Some(w) => w,
        None => return Ok(Info::discarded()),
    };
    // the weighted mean forms divide by the weight sum: integer weights summing to zero are
    // outside the documented domain (no such case is generated: all weights are positive)
    if d6_signature(c) && !strict() {
        return Ok(Info::excluded());
    }
    let got = if c.int_ty {
        match catch(|| call_int(c)) {
            Ok(Some(o)) => o,
            Ok(None) => return Ok(Info::discarded()),
            Err(p) => Out::Panic(p),
        }
    } else {
        match catch(|| call_float(c)) {
            Ok(o) => o,
            Err(p) => Out::Panic(p),
        }
    };
    if want == Out::Ok && matches!(kind(c.routine), Kind::Strategy | Kind::Matrix) {
        if let Out::Other(e) = &got {
            if e.contains("Strategy") {
                // a strategy may reject non-empty data (zero integer width, zero IQR): C12's business
                return Ok(Info::discarded());
            }
        }
    }
    if let Out::Panic(p) = &got {
        fail!("panic", "{:?} panicked instead of returning {:?}: {} (first shape {:?}, second {:?}, axis {}, q {:?})", c.routine, want, p, c.shape_a, c.shape_b, c.axis, c.qs.iter().map(|&b| f64::from_bits(b)).collect::<Vec<_>>());
    }
    ensure!(
        got == want,
        "error-kind",
        "{:?} returned {:?}, the documented outcome is {:?} (first shape {:?}, second shape {:?}, axis {}, q {:?}, {} elements, layout kind {})",
        c.routine,
        got,
        want,
        c.shape_a,
        c.shape_b,
        c.axis,
        c.qs.iter().map(|&b| f64::from_bits(b)).collect::<Vec<_>>(),
        if c.int_ty { "integer" } else { "float" },
        c.layout_kind
    );
    let nt = want != Out::Ok;
    Ok(Info::new(nt)
        .class(match want {
            Out::Ok => "expected:Ok",
            Out::Empty => "expected:EmptyInput",
            Out::Mismatch(..) => "expected:ShapeMismatch",
            Out::InvalidQ(_) => "expected:InvalidQuantile",
            _ => "expected:other",
        })
        .class_if(c.int_ty, "type:integer")
        .class_if(!c.int_ty, "type:float"))
}

// ---------------------------------------------------------------------------------------
// table enumeration

fn rnd(seed: &mut u64) -> u64 {
    *seed = splitmix64(*seed);
    *seed
}

fn nonempty_shape(seed: &mut u64, nd: usize) -> Vec<usize> {
    (0..nd).map(|_| 1 + (rnd(seed) % 4) as usize).collect()
}

/// Builds the instance `k` of a table cell; None when the cell does not apply to the routine.
fn build(r: R, sa: u8, sb: u8, sq: u8, int_ty: bool, layout_kind: u8, seed0: u64) -> Option<ErrCase> {
    let mut seed = seed0;
    let k = kind(r);
    // ---- first input
    let nd = match k {
        Kind::Matrix => 2,
        Kind::Strategy => 1,
        Kind::Quantile { one_d: true, .. } => 1,
        _ => 1 + (rnd(&mut seed) % 3) as usize,
    };
    let mut shape_a = match sa {
        0 => nonempty_shape(&mut seed, nd),
        1 => {
            if nd != 1 && !matches!(k, Kind::Matrix) {
                vec![0]
            } else if nd == 1 {
                vec![0]
            } else {
                vec![0, 0]
            }
        }
        2 => {
            // empty via one zero-length axis
            let nd2 = if matches!(k, Kind::Strategy | Kind::Quantile { one_d: true, .. }) { return None } else { nd.max(2) };
            let mut s = nonempty_shape(&mut seed, nd2);
            let z = (rnd(&mut seed) % nd2 as u64) as usize;
            s[z] = 0;
            s
        }
        _ => {
            // 0-D
            if matches!(k, Kind::Unary | Kind::BinaryGuarded | Kind::BinaryUnguarded) {
                vec![]
            } else {
                return None;
            }
        }
    };
    if matches!(k, Kind::Strategy) && sa == 0 {
        shape_a = vec![2 + (rnd(&mut seed) % 30) as usize];
    }
    if matches!(k, Kind::Matrix) && shape_a.len() != 2 {
        return None;
    }
    let axis = if shape_a.is_empty() { 0 } else { (rnd(&mut seed) % shape_a.len() as u64) as usize };
    // ---- second argument
    let shape_b = match k {
        Kind::BinaryGuarded | Kind::BinaryUnguarded => match sb {
            0 => shape_a.clone(),
            1 => {
                // different shape, equal element count
                let mut s = shape_a.clone();
                if s.len() >= 2 && s[0] != s[s.len() - 1] {
                    s.reverse();
                    s
                } else if s.len() >= 2 {
                    // (a, b) -> (a*b, 1)
                    let p: usize = s.iter().product();
                    let mut t = vec![1; s.len()];
                    t[0] = p;
                    if t == s {
                        return None;
                    }
                    t
                } else {
                    return None;
                }
            }
            2 => {
                let mut s = shape_a.clone();
                if s.is_empty() {
                    return None;
                }
                let z = (rnd(&mut seed) % s.len() as u64) as usize;
                s[z] += 1;
                s
            }
            3 => {
                // different rank, same element count
                let p: usize = shape_a.iter().product();
                if shape_a.len() == 1 {
                    vec![p, 1]
                } else {
                    vec![p]
                }
            }
            _ => {
                // emptiness differs
                let la: usize = shape_a.iter().product();
                if la == 0 {
                    nonempty_shape(&mut seed, shape_a.len().max(1))
                } else {
                    let mut s = shape_a.clone();
                    if s.is_empty() {
                        return None;
                    }
                    s[0] = 0;
                    s
                }
            }
        },
        Kind::AxisGuarded | Kind::AxisUnguarded => {
            let n = shape_a[axis];
            match sb {
                0 => vec![n],
                2 => vec![n + 1],
                4 => {
                    if n == 0 {
                        vec![2]
                    } else {
                        vec![0]
                    }
                }
                3 => {
                    if n >= 1 {
                        vec![n - 1]
                    } else {
                        return None;
                    }
                }
                _ => return None,
            }
        }
        _ => {
            if sb != 0 {
                return None;
            }
            vec![]
        }
    };
    // ---- q list
    let qs: Vec<f64> = match k {
        Kind::Quantile { bulk, .. } => {
            let valid = |s: &mut u64| (rnd(s) % 1025) as f64 / 1024.0;
            let below = |s: &mut u64| [-0.1, -5e-324, -1.0, f64::NEG_INFINITY][(rnd(s) % 4) as usize];
            let above = |s: &mut u64| [1.0000000000000002, 1.5, 2.0, f64::INFINITY][(rnd(s) % 4) as usize];
            let nq = if bulk { 1 + (rnd(&mut seed) % 5) as usize } else { 1 };
            let mut v: Vec<f64> = (0..nq).map(|_| valid(&mut seed)).collect();
            match sq {
                0 => {
                    if bulk && rnd(&mut seed) % 7 == 0 {
                        v.clear();
                    }
                }
                1 => {
                    let p = (rnd(&mut seed) % nq as u64) as usize;
                    v[p] = below(&mut seed);
                }
                2 => {
                    let p = (rnd(&mut seed) % nq as u64) as usize;
                    v[p] = above(&mut seed);
                }
                3 => {
                    if !bulk {
                        return None;
                    }
                    // several invalid q in different positions
                    v.push(above(&mut seed));
                    v.insert(0, valid(&mut seed));
                    v.push(below(&mut seed));
                    let p = (rnd(&mut seed) % v.len() as u64) as usize;
                    v[p] = below(&mut seed);
                }
                _ => return None,
            }
            v
        }
        _ => {
            if sq != 0 {
                return None;
            }
            vec![]
        }
    };
    Some(ErrCase { routine: r, shape_a, shape_b, axis, qs: qs.into_iter().map(|q| q.to_bits()).collect(), int_ty, layout_kind, scen: (sa, sb, sq) })
}

pub fn run_c17(ctx: &Ctx) {
    let t = ctx.tier();
    let instances = t.pick(100u64, 2000u64);
    let mut cell = 0u64;
    let mut cells_used = 0u64;
    for &r in ROUTINES.iter() {
        for sa in 0u8..4 {
            for sb in 0u8..5 {
                for sq in 0u8..4 {
                    for int_ty in [false, true] {
                        for layout_kind in 0u8..3 {
                            cell += 1;
                            if !ctx.mine(cell) {
                                continue;
                            }
                            let mut used = false;
                            for k in 0..instances {
                                let seed = splitmix64(ctx.cfg.seed ^ (cell << 20) ^ k);
                                let c = match build(r, sa, sb, sq, int_ty, layout_kind, seed) {
                                    Some(c) => c,
                                    None => break,
                                };
                                if ctx.cfg.journal {
                                    ctx.journal("errors", &c);
                                }
                                match guarded(&check_err, &c) {
                                    Ok(info) => {
                                        used |= !info.discarded;
                                        ctx.record("table-enumeration", "errors", &c, Some(hash_of(&c)), &info);
                                        if info.discarded {
                                            break;
                                        }
                                    }
                                    Err(f) => {
                                        ctx.violation("errors", &c, &f);
                                        return;
                                    }
                                }
                            }
                            if used {
                                cells_used += 1;
                            }
                        }
                    }
                }
            }
        }
    }
    ctx.bulk("table-enumeration", 0, 0, &[("table-cells-populated", cells_used)]);
    ctx.exhaustive(format!(
        "error decision table: {} routines x first-input scenario {{non-empty, empty 1-D, zero-length axis, 0-D}} x second-argument scenario {{same, same count/different shape, different shape, different rank, emptiness differs}} x q scenario {{valid, q<0, q>1, several invalid}} x {{float, integer}} x 3 layouts, {} seeded instances per populated cell",
        ROUTINES.len(),
        instances
    ));
}

pub fn replayers() -> Vec<(&'static str, ReplayFn)> {
    vec![("errors", |v| replay_with::<ErrCase>(v, &check_err))]
}

#[allow(dead_code)]
fn _u(_: Array1<f64>, _: Array2<f64>, _: ArrayD<f64>, _: IxDyn) {}
