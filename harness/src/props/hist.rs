//! C13 (edges sorted, left-closed/right-open lookup), C11 (histogram counts for every
//! observation history), C12 (strategy-built bins cover the data).

use crate::core::*;
use crate::exact::ulp64;
use crate::gen::*;
use crate::{ensure, fail};
use ndarray::{Array1, Array2, ArrayD, IxDyn, ShapeBuilder};
use ndarray_stats::histogram::strategies::{Auto, BinsBuildingStrategy, FreedmanDiaconis, Rice, Sqrt, Sturges};
use ndarray_stats::histogram::{Bins, Edges, Grid, GridBuilder, Histogram};
use ndarray_stats::HistogramExt;
use noisy_float::types::N64;
use proptest::prelude::*;
use serde::{Deserialize, Serialize};
use std::collections::{BTreeMap, BTreeSet};

// ---------------------------------------------------------------------------------------
// element types of the histogram checks

pub trait HEl: Ord + Clone + std::fmt::Debug + 'static {
    fn from_i(v: i64) -> Self;
}
impl HEl for i64 {
    fn from_i(v: i64) -> Self {
        v
    }
}
impl HEl for i32 {
    fn from_i(v: i64) -> Self {
        v as i32
    }
}
impl HEl for u8 {
    fn from_i(v: i64) -> Self {
        v as u8
    }
}
impl HEl for N64 {
    fn from_i(v: i64) -> Self {
        N64::unchecked_new(v as f64 * 0.1)
    }
}

#[derive(Clone, Copy, Debug, Serialize, Deserialize, Hash, PartialEq, Eq)]
pub enum HTy {
    I64,
    I32,
    U8,
    N64,
}

macro_rules! dispatch_h {
    ($ty:expr, $f:ident ( $($args:expr),* )) => {
        match $ty {
            HTy::I64 => $f::<i64>($($args),*),
            HTy::I32 => $f::<i32>($($args),*),
            HTy::U8 => $f::<u8>($($args),*),
            HTy::N64 => $f::<N64>($($args),*),
        }
    };
}

/// Reference lookup: linear scan over the sorted distinct edges.
fn model_bin<T: Ord>(edges: &[T], v: &T) -> Option<usize> {
    if edges.len() < 2 {
        return None;
    }
    for i in 0..edges.len() - 1 {
        if &edges[i] <= v && v < &edges[i + 1] {
            return Some(i);
        }
    }
    None
}

// ---------------------------------------------------------------------------------------
// C13

#[derive(Clone, Debug, Serialize, Deserialize, Hash)]
pub struct EdgeCase {
    pub ty: HTy,
    pub vals: Vec<i64>,
    pub probes: Vec<i64>,
    pub via_array: bool,
    /// how the owned Array1 is produced: 0 = from a Vec, 1 = sliced in place with step 2,
    /// 2 = axis inverted in place, 3 = sliced in place to an offset sub-range
    #[serde(default)]
    pub arr_mode: u8,
}

/// An owned Array1 holding exactly `vals` (logically), produced the requested way.
fn owned_array1<T: HEl>(vals: &[T], mode: u8) -> Array1<T> {
    // a filler value that is NOT one of the input values (so that leaking it is visible)
    let foreign = || -> T {
        for k in 0..1000i64 {
            let f = T::from_i(100 + k);
            if !vals.contains(&f) {
                return f;
            }
        }
        T::from_i(0)
    };
    match mode % 4 {
        1 if !vals.is_empty() => {
            // interleave with foreign values, then keep every second element in place
            let filler = foreign();
            let mut buf = Vec::with_capacity(2 * vals.len());
            for v in vals {
                buf.push(v.clone());
                buf.push(filler.clone());
            }
            let mut a = Array1::from(buf);
            a.slice_collapse(ndarray::s![..;2]);
            a
        }
        2 => {
            let mut r: Vec<T> = vals.to_vec();
            r.reverse();
            let mut a = Array1::from(r);
            a.invert_axis(ndarray::Axis(0));
            a
        }
        3 if !vals.is_empty() => {
            let filler = foreign();
            let mut buf = vec![filler.clone()];
            buf.extend(vals.iter().cloned());
            buf.push(filler);
            let n = vals.len();
            let mut a = Array1::from(buf);
            a.slice_collapse(ndarray::s![1..n + 1]);
            a
        }
        _ => Array1::from(vals.to_vec()),
    }
}

pub fn check_edges_t<T: HEl>(c: &EdgeCase) -> CheckResult {
    let input: Vec<T> = c.vals.iter().map(|&v| T::from_i(v)).collect();
    let edges: Edges<T> = if c.via_array {
        let arr = owned_array1(&input, c.arr_mode);
        if arr.iter().cloned().collect::<Vec<T>>() != input {
            return Ok(Info::discarded());
        }
        Edges::from(arr)
    } else {
        Edges::from(input.clone())
    };
    let want: Vec<T> = input.iter().cloned().collect::<BTreeSet<T>>().into_iter().collect();
    ensure!(edges.len() == want.len(), "wrong-value", "Edges built from {:?} has {} edges, the input has {} distinct values", input, edges.len(), want.len());
    ensure!(edges.is_empty() == want.is_empty(), "wrong-value", "Edges::is_empty disagrees with len");
    let got_iter: Vec<T> = edges.iter().cloned().collect();
    ensure!(got_iter == want, "wrong-value", "Edges::iter gives {:?}, expected the sorted distinct input {:?}", got_iter, want);
    let got_view: Vec<T> = edges.as_array_view().iter().cloned().collect();
    ensure!(got_view == want, "wrong-value", "Edges::as_array_view gives {:?}, expected {:?}", got_view, want);
    for i in 0..want.len() {
        ensure!(edges[i] == want[i], "wrong-value", "edges[{}] = {:?}, expected {:?}", i, edges[i], want[i]);
        if i > 0 {
            ensure!(edges[i - 1] < edges[i], "wrong-value", "edges are not strictly increasing at {}", i);
        }
    }
    let bins = Bins::new(edges.clone());
    let nb = want.len().saturating_sub(1);
    ensure!(bins.len() == nb, "wrong-value", "Bins::len = {} for {} edges (expected max(#edges-1, 0) = {})", bins.len(), want.len(), nb);
    ensure!(bins.is_empty() == (nb == 0), "wrong-value", "Bins::is_empty disagrees with len");
    for i in 0..nb {
        let r = bins.index(i);
        ensure!(r.start == want[i] && r.end == want[i + 1], "wrong-value", "Bins::index({}) = {:?}, expected {:?}..{:?}", i, r, want[i], want[i + 1]);
    }
    let mut interior = false;
    for &p in &c.probes {
        let v = T::from_i(p);
        let m = model_bin(&want, &v);
        let io = edges.indices_of(&v);
        ensure!(io == m.map(|i| (i, i + 1)), "wrong-value", "Edges::indices_of({:?}) = {:?}, but edge_i <= v < edge_(i+1) holds for i = {:?} (edges {:?})", v, io, m, want);
        let bi = bins.index_of(&v);
        ensure!(bi == m, "wrong-value", "Bins::index_of({:?}) = {:?}, expected {:?} (edges {:?})", v, bi, m, want);
        let ro = bins.range_of(&v);
        match (m, &ro) {
            (Some(i), Some(r)) => {
                ensure!(r.start == want[i] && r.end == want[i + 1] && r.start <= v && v < r.end, "wrong-value", "Bins::range_of({:?}) = {:?}, expected {:?}..{:?}", v, r, want[i], want[i + 1]);
                let bi_r = bins.index(i);
                ensure!(bi_r == *r, "wrong-value", "range_of and index disagree for {:?}", v);
                if i > 0 || v > want[0] {
                    interior = true;
                }
            }
            (None, None) => {}
            _ => fail!("wrong-value", "Bins::range_of({:?}) = {:?} but index_of = {:?}", v, ro, m),
        }
    }
    Ok(Info::new(want.len() >= 3 && interior)
        .class_if(c.via_array, "from-array1")
        .class_if(c.via_array && c.arr_mode % 4 != 0, "from-array1:sliced/inverted-in-place")
        .class_if(want.len() < input.len(), "duplicates-in-input")
        .class_if(want.len() < 2, "fewer-than-two-edges")
        .class_if(want.len() >= 1024, "edges>=1024"))
}

pub fn check_edges(c: &EdgeCase) -> CheckResult {
    dispatch_h!(c.ty, check_edges_t(c))
}

#[derive(Clone, Debug, Serialize, Deserialize, Hash)]
pub struct GridCase {
    pub ty: HTy,
    pub axes: Vec<Vec<i64>>,
    pub points: Vec<Vec<i64>>,
    pub indexes: Vec<Vec<usize>>,
}

pub fn check_grid_t<T: HEl>(c: &GridCase) -> CheckResult {
    let nd = c.axes.len();
    let sorted: Vec<Vec<T>> = c.axes.iter().map(|a| a.iter().map(|&v| T::from_i(v)).collect::<BTreeSet<T>>().into_iter().collect()).collect();
    let bins: Vec<Bins<T>> = c.axes.iter().map(|a| Bins::new(Edges::from(a.iter().map(|&v| T::from_i(v)).collect::<Vec<T>>()))).collect();
    let grid = Grid::from(bins.clone());
    ensure!(grid.ndim() == nd, "wrong-value", "Grid::ndim = {} for {} projections", grid.ndim(), nd);
    let shape: Vec<usize> = sorted.iter().map(|s| s.len().saturating_sub(1)).collect();
    ensure!(grid.shape() == shape, "wrong-value", "Grid::shape = {:?}, expected {:?}", grid.shape(), shape);
    ensure!(grid.projections() == &bins[..], "wrong-value", "Grid::projections differs from the bins it was built from");
    let mut inside = false;
    for p in &c.points {
        if p.len() != nd {
            continue;
        }
        let pt: Vec<T> = p.iter().map(|&v| T::from_i(v)).collect();
        let want: Option<Vec<usize>> = pt.iter().zip(&sorted).map(|(v, e)| model_bin(e, v)).collect();
        let got = grid.index_of(&Array1::from(pt.clone()));
        ensure!(got == want, "wrong-value", "Grid::index_of({:?}) = {:?}, per-axis lookup gives {:?} (edges {:?})", pt, got, want, sorted);
        if let Some(idx) = &want {
            inside = true;
            let r = grid.index(idx);
            for (ax, rr) in r.iter().enumerate() {
                ensure!(rr.start == sorted[ax][idx[ax]] && rr.end == sorted[ax][idx[ax] + 1] && rr.start <= pt[ax] && pt[ax] < rr.end, "wrong-value", "Grid::index({:?})[{}] = {:?} does not contain the point coordinate {:?}", idx, ax, rr, pt[ax]);
            }
        }
    }
    for idx in &c.indexes {
        if idx.len() != nd {
            continue;
        }
        let in_range = idx.iter().zip(&shape).all(|(&i, &s)| i < s);
        let r = catch(|| grid.index(idx));
        if in_range {
            let r = match r {
                Ok(r) => r,
                Err(p) => fail!("panic", "Grid::index({:?}) on shape {:?} panicked: {}", idx, shape, p),
            };
            for (ax, rr) in r.iter().enumerate() {
                ensure!(rr.start == sorted[ax][idx[ax]] && rr.end == sorted[ax][idx[ax] + 1], "wrong-value", "Grid::index({:?})[{}] = {:?}", idx, ax, rr);
            }
        } else {
            ensure!(r.is_err(), "no-panic", "Grid::index({:?}) on shape {:?} did not panic", idx, shape);
        }
    }
    Ok(Info::new(nd >= 2 && inside && sorted.iter().all(|s| s.len() >= 3)).class_if(shape.iter().any(|&s| s == 0), "zero-bin-axis"))
}

pub fn check_grid(c: &GridCase) -> CheckResult {
    dispatch_h!(c.ty, check_grid_t(c))
}

fn enum_edges(ctx: &Ctx, max_len: usize) {
    // every sequence of length <= max_len over the alphabet {0,2,..,2L}, probed with every
    // integer in -1..=2L+1
    let mut item = 0u64;
    let mut evals = 0u64;
    let mut nontriv = 0u64;
    let mut sampled = false;
    for len in 0..=max_len {
        let k = len.max(1);
        let probes: Vec<i64> = (-1..=(2 * k as i64 + 1)).collect();
        let total = (k + 1).pow(len as u32);
        for code in 0..total {
            item += 1;
            if !ctx.mine(item) {
                continue;
            }
            let mut x = code;
            let vals: Vec<i64> = (0..len)
                .map(|_| {
                    let d = x % (k + 1);
                    x /= k + 1;
                    2 * d as i64
                })
                .collect();
            let c = EdgeCase { ty: HTy::I64, vals, probes: probes.clone(), via_array: code % 2 == 1, arr_mode: (code / 2 % 4) as u8 };
            match guarded(&check_edges, &c) {
                Ok(info) => {
                    evals += 1;
                    if info.nontrivial {
                        nontriv += 1;
                        if !sampled && len == max_len {
                            sampled = true;
                            ctx.sample("enumeration", "edges", &c);
                        }
                    }
                }
                Err(f) => {
                    ctx.violation("edges", &c, &f);
                    ctx.bulk("enumeration", evals, nontriv, &[]);
                    return;
                }
            }
        }
    }
    ctx.bulk("enumeration", evals, nontriv, &[("edges:enumerated-collections", evals)]);
    ctx.exhaustive(format!("Edges/Bins: every sequence of length 0..={} over the alphabet {{0,2,..,2L}} (every multiset and order), probed with every integer in -1..=2L+1", max_len));
}

fn edges_strategy() -> impl Strategy<Value = EdgeCase> {
    (
        proptest::sample::select(vec![HTy::I64, HTy::I32, HTy::U8, HTy::N64]),
        prop_oneof![proptest::collection::vec(0i64..12, 0..12), proptest::collection::vec(-100i64..100, 0..60), proptest::collection::vec(0i64..256, 0..200)],
        proptest::collection::vec(-101i64..257, 1..40),
        any::<bool>(),
        0u8..4,
    )
        .prop_map(|(ty, vals, mut probes, via_array, arr_mode)| {
            let (vals, pr): (Vec<i64>, Vec<i64>) = if ty == HTy::U8 { (vals.iter().map(|v| v.rem_euclid(256)).collect(), probes.iter().map(|v| v.rem_euclid(256)).collect()) } else { (vals, probes.clone()) };
            probes = pr;
            // probe every edge and its neighbours as well
            for v in vals.iter().take(20) {
                probes.push(*v);
                if ty != HTy::U8 {
                    probes.push(*v - 1);
                    probes.push(*v + 1);
                }
            }
            EdgeCase { ty, vals, probes, via_array, arr_mode }
        })
}

/// Thousands of edge values (unsorted, with duplicates, or monotone), probed at random
/// positions, at the extremes and next to a sample of the edges.
fn edges_long_strategy(max_len: usize) -> impl Strategy<Value = EdgeCase> {
    (proptest::sample::select(vec![HTy::I64, HTy::I32, HTy::N64]), crate::gen::long_len(300, max_len), 0u8..5, any::<u64>(), any::<bool>(), 0u8..4).prop_map(|(ty, n, class, seed, via_array, arr_mode)| {
        let mut next = crate::gen::splitmix(seed);
        let span = match class {
            0 => 4 * n as u64,
            1 => (n as u64 / 2).max(2),
            _ => 16 * n as u64,
        };
        let mut vals: Vec<i64> = match class {
            3 => (0..n as i64).map(|k| 3 * k - 1000).collect(),
            4 => (0..n as i64).rev().map(|k| 2 * k).collect(),
            _ => (0..n).map(|_| (next() % span) as i64 - 100).collect(),
        };
        if class == 2 {
            // a few repeats of existing values
            for _ in 0..8 {
                let (i, j) = ((next() % n as u64) as usize, (next() % n as u64) as usize);
                vals[i] = vals[j];
            }
        }
        let (lo, hi) = (*vals.iter().min().unwrap(), *vals.iter().max().unwrap());
        let mut probes: Vec<i64> = vec![lo - 1, lo, lo + 1, hi - 1, hi, hi + 1];
        for _ in 0..60 {
            probes.push(lo - 2 + (next() % (hi - lo + 5) as u64) as i64);
        }
        for _ in 0..20 {
            let v = vals[(next() % n as u64) as usize];
            probes.extend([v - 1, v, v + 1]);
        }
        EdgeCase { ty, vals, probes, via_array, arr_mode }
    })
}

fn grid_strategy() -> impl Strategy<Value = GridCase> {
    (proptest::sample::select(vec![HTy::I64, HTy::I32, HTy::N64]), 1usize..=3)
        .prop_flat_map(|(ty, nd)| {
            (
                Just(ty),
                proptest::collection::vec(proptest::collection::vec(-6i64..7, 0..8), nd),
                proptest::collection::vec(proptest::collection::vec(-8i64..9, nd), 1..12),
                proptest::collection::vec(proptest::collection::vec(0usize..8, nd), 1..8),
            )
        })
        .prop_map(|(ty, axes, points, indexes)| GridCase { ty, axes, points, indexes })
}

/// Edge collections of 2^k + d elements (d = -1, 0, 1, 2), k up to 21 / 22: every edge value, the
/// value below and the value above it are looked up (the model is arithmetic: edges are 3i + 1).
#[derive(Clone, Debug, Serialize, Deserialize, Hash)]
pub struct EdgesHugeCase {
    pub n_edges: usize,
    /// the edge values are handed over in decreasing order
    pub reversed: bool,
}

pub fn check_edges_huge(c: &EdgesHugeCase) -> CheckResult {
    let n = c.n_edges;
    let mut vals: Vec<i64> = (0..n as i64).map(|i| 3 * i + 1).collect();
    if c.reversed {
        vals.reverse();
    }
    let edges = Edges::from(vals);
    ensure!(edges.len() == n, "wrong-value", "Edges built from {} distinct values has {} edges", n, edges.len());
    let last = 3 * (n as i64 - 1) + 1;
    let mut bad: Option<String> = None;
    let mut probes = 0u64;
    for i in 0..n as i64 {
        for v in [3 * i, 3 * i + 1, 3 * i + 2] {
            let want = if v < 1 || v >= last || n < 2 { None } else { Some((((v - 1) / 3) as usize, ((v - 1) / 3) as usize + 1)) };
            let got = edges.indices_of(&v);
            probes += 1;
            if got != want && bad.is_none() {
                bad = Some(format!("Edges::indices_of({}) = {:?} on {} edges 1, 4, 7, ..., {}: edge_i <= v < edge_(i+1) holds for {:?}", v, got, n, last, want));
            }
        }
    }
    if let Some(b) = bad {
        fail!("wrong-value", "{}", b);
    }
    let bins = Bins::new(edges);
    ensure!(bins.len() == n.saturating_sub(1), "wrong-value", "Bins::len = {} for {} edges", bins.len(), n);
    for v in [0i64, 1, 2, 4, last - 2, last - 1, last, last + 1] {
        let want = if v < 1 || v >= last || n < 2 { None } else { Some(((v - 1) / 3) as usize) };
        ensure!(bins.index_of(&v) == want, "wrong-value", "Bins::index_of({}) = {:?}, expected {:?} ({} edges)", v, bins.index_of(&v), want, n);
    }
    let _ = probes;
    Ok(Info::new(n >= 3).class("edges:2^k+d").class_if(n >= 1 << 20, "edges>=2^20"))
}

fn enum_edges_huge(ctx: &Ctx, max_k: u32) {
    let mut item = 0u64;
    for k in (8..=max_k).rev() {
        for d in [-1i64, 0, 1, 2] {
            for reversed in [false, true] {
                item += 1;
                if !ctx.mine(item) || (reversed && k > 16) {
                    continue;
                }
                let c = EdgesHugeCase { n_edges: ((1i64 << k) + d) as usize, reversed };
                if !ctx.enum_case("edges-huge", &c, &check_edges_huge) {
                    return;
                }
            }
        }
    }
}

pub fn run_c13(ctx: &Ctx) {
    let t = ctx.tier();
    enum_edges(ctx, t.pick(6, 7));
    ctx.run_proptest("edges", t.pick(40_000, 1_000_000), edges_strategy(), &check_edges);
    ctx.run_proptest("grid", t.pick(40_000, 1_000_000), grid_strategy(), &check_grid);
    ctx.run_proptest("edges-long", t.pick(1_000, 30_000), edges_long_strategy(t.pick(5_000, 10_000)), &check_edges);
    enum_edges_huge(ctx, t.pick(21, 22));
}

// ---------------------------------------------------------------------------------------
// C11

#[derive(Clone, Debug, Serialize, Deserialize, Hash)]
pub struct HistCase {
    pub ty: HTy,
    pub axes: Vec<Vec<i64>>,
    /// the history: points in insertion order
    pub points: Vec<Vec<i64>>,
    /// sort keys defining a permutation of the observations
    pub perm_keys: Vec<u16>,
    /// how the edge collections are handed over: 0 = Vec, 1..3 = owned Array1 sliced / inverted in place
    #[serde(default)]
    pub edges_mode: u8,
}

type Model = BTreeMap<Vec<usize>, usize>;

fn counts_equal(counts: &ndarray::ArrayViewD<'_, usize>, model: &Model, shape: &[usize]) -> Result<(), String> {
    if counts.shape() != shape {
        return Err(format!("counts has shape {:?}, the grid has shape {:?}", counts.shape(), shape));
    }
    for (idx, &cnt) in counts.indexed_iter() {
        use ndarray::Dimension;
        let want = model.get(idx.slice()).cloned().unwrap_or(0);
        if cnt != want {
            return Err(format!("count at {:?} is {}, the model says {}", idx.slice(), cnt, want));
        }
    }
    let total: usize = counts.iter().sum();
    let mtotal: usize = model.values().sum();
    if total != mtotal {
        return Err(format!("counts sum to {}, the model to {}", total, mtotal));
    }
    Ok(())
}

pub fn check_hist_t<T: HEl>(c: &HistCase) -> CheckResult {
    let nd = c.axes.len();
    if nd == 0 || c.points.iter().any(|p| p.len() != nd) {
        return Ok(Info::discarded());
    }
    let sorted: Vec<Vec<T>> = c.axes.iter().map(|a| a.iter().map(|&v| T::from_i(v)).collect::<BTreeSet<T>>().into_iter().collect()).collect();
    let mk_grid = || {
        Grid::from(
            c.axes
                .iter()
                .map(|a| {
                    let vals: Vec<T> = a.iter().map(|&v| T::from_i(v)).collect();
                    if c.edges_mode % 4 == 0 {
                        Bins::new(Edges::from(vals))
                    } else {
                        Bins::new(Edges::from(owned_array1(&vals, c.edges_mode)))
                    }
                })
                .collect::<Vec<_>>(),
        )
    };
    let shape: Vec<usize> = sorted.iter().map(|s| s.len().saturating_sub(1)).collect();
    let mut h = Histogram::new(mk_grid());
    ensure!(h.ndim() == nd, "wrong-value", "Histogram::ndim = {} for a grid of {} axes", h.ndim(), nd);
    let mut model: Model = BTreeMap::new();
    if let Err(e) = counts_equal(&h.counts(), &model, &shape) {
        fail!("wrong-value", "fresh histogram: {}", e);
    }
    let (mut accepted, mut rejected, mut on_edge) = (0usize, 0usize, 0usize);
    for (step, p) in c.points.iter().enumerate() {
        let pt: Vec<T> = p.iter().map(|&v| T::from_i(v)).collect();
        let want: Option<Vec<usize>> = pt.iter().zip(&sorted).map(|(v, e)| model_bin(e, v)).collect();
        // odd steps hand the observation over as a reversed (stride -1) view of reversed storage
        let rev_store: Vec<T> = pt.iter().rev().cloned().collect();
        let rev_view = ndarray::ArrayView1::from(&rev_store[..]).slice_move(ndarray::s![..;-1]);
        let r = match catch(|| if step % 2 == 1 { h.add_observation(&rev_view) } else { h.add_observation(&Array1::from(pt.clone())) }) {
            Ok(r) => r,
            Err(pn) => fail!("panic", "add_observation({:?}) panicked at step {}: {}", pt, step, pn),
        };
        match (&want, &r) {
            (Some(idx), Ok(())) => {
                *model.entry(idx.clone()).or_insert(0) += 1;
                accepted += 1;
                if pt.iter().zip(&sorted).any(|(v, e)| e.contains(v)) {
                    on_edge += 1;
                }
            }
            (None, Err(_)) => rejected += 1,
            (Some(idx), Err(_)) => fail!("error-kind", "step {}: add_observation({:?}) returned BinNotFound, but the point lies in bin {:?} (edges {:?})", step, pt, idx, sorted),
            (None, Ok(())) => fail!("error-kind", "step {}: add_observation({:?}) was accepted, but the point is outside the grid (edges {:?})", step, pt, sorted),
        }
        if let Err(e) = counts_equal(&h.counts(), &model, &shape) {
            fail!("wrong-value", "after step {} (add {:?} -> {:?}): {} (edges {:?})", step, pt, r.is_ok(), e, sorted);
        }
    }
    ensure!(h.grid().shape() == shape, "wrong-value", "Histogram::grid().shape() = {:?}, expected {:?}", h.grid().shape(), shape);
    // matrix forms: row-major, column-major, permuted rows
    let n = c.points.len();
    let flat: Vec<T> = c.points.iter().flat_map(|p| p.iter().map(|&v| T::from_i(v))).collect();
    let m_c = Array2::from_shape_vec((n, nd), flat.clone()).unwrap();
    let mut m_f = Array2::from_elem((n, nd).f(), T::from_i(0));
    m_f.assign(&m_c);
    let mut order: Vec<usize> = (0..n).collect();
    order.sort_by_key(|&i| (c.perm_keys.get(i).cloned().unwrap_or(0), i));
    let m_p = m_c.select(ndarray::Axis(0), &order);
    // same matrix, columns stored in reverse and viewed through a reversed axis
    let flat_r: Vec<T> = c.points.iter().flat_map(|p| p.iter().rev().map(|&v| T::from_i(v))).collect();
    let store_r = Array2::from_shape_vec((n, nd), flat_r).unwrap();
    let m_r = store_r.slice(ndarray::s![.., ..;-1]);
    {
        let hm = match catch(|| m_r.histogram(mk_grid())) {
            Ok(h) => h,
            Err(p) => fail!("panic", "histogram() of the reversed-column view panicked: {}", p),
        };
        if let Err(e) = counts_equal(&hm.counts(), &model, &shape) {
            fail!("wrong-value", "histogram() of a matrix view with a reversed column axis: {} (edges {:?}, points {:?})", e, sorted, c.points);
        }
    }
    for (name, m) in [("row-major matrix", &m_c), ("column-major matrix", &m_f), ("permuted rows", &m_p)] {
        let hm = match catch(|| m.histogram(mk_grid())) {
            Ok(h) => h,
            Err(p) => fail!("panic", "histogram() of the {} panicked: {}", name, p),
        };
        if let Err(e) = counts_equal(&hm.counts(), &model, &shape) {
            fail!("wrong-value", "histogram() of the {}: {} (edges {:?}, points {:?})", name, e, sorted, c.points);
        }
    }
    let differing = shape.len() >= 2 && shape.iter().any(|&s| s != shape[0]);
    Ok(Info::new(differing && accepted >= 1 && rejected >= 1 && on_edge >= 1)
        .class_if(shape.iter().any(|&s| s == 0), "zero-bin-axis")
        .class_if(rejected > 0, "has-rejected-insert")
        .class_if(on_edge > 0, "has-on-edge-observation")
        .class_if(nd == 1, "1-axis")
        .class_if(nd == 2, "2-axes")
        .class_if(nd == 3, "3-axes")
        .class_if(c.edges_mode % 4 != 0, "edges-from-array1-sliced-in-place"))
}

pub fn check_hist(c: &HistCase) -> CheckResult {
    dispatch_h!(c.ty, check_hist_t(c))
}

fn hist_strategy(max_ops: usize) -> impl Strategy<Value = HistCase> {
    (proptest::sample::select(vec![HTy::I32, HTy::N64, HTy::I64]), 1usize..=3)
        .prop_flat_map(move |(ty, nd)| {
            let axis = prop_oneof![
                6 => proptest::collection::vec(-8i64..9, 2..9),
                1 => proptest::collection::vec(-8i64..9, 0..2),
                1 => proptest::collection::vec(Just(3i64), 1..4),
            ];
            (Just(ty), proptest::collection::vec(axis, nd))
        })
        .prop_flat_map(move |(ty, axes)| {
            let nd = axes.len();
            // coordinates: each edge, neighbours, below first, beyond last
            let coords: Vec<BoxedStrategy<i64>> = axes
                .iter()
                .map(|a| {
                    if a.is_empty() {
                        (-3i64..4).boxed()
                    } else {
                        let lo = *a.iter().min().unwrap();
                        let hi = *a.iter().max().unwrap();
                        prop_oneof![3 => proptest::sample::select(a.clone()), 4 => (lo - 2)..(hi + 3)].boxed()
                    }
                })
                .collect();
            (Just((ty, axes)), proptest::collection::vec(coords, 0..max_ops), proptest::collection::vec(any::<u16>(), max_ops), prop_oneof![3 => Just(0u8), 1 => 1u8..4]).prop_map(move |((ty, axes), points, perm_keys, edges_mode)| {
                let _ = nd;
                HistCase { ty, axes, points, perm_keys, edges_mode }
            })
        })
}

/// Histories on a grid whose first axis has hundreds of edges (255..1025, around powers of two),
/// with observations on the first / last edge, next to them and beyond.
fn hist_wide_strategy(max_ops: usize) -> impl Strategy<Value = HistCase> {
    (
        proptest::sample::select(vec![HTy::I32, HTy::N64, HTy::I64]),
        prop_oneof![2 => proptest::sample::select(vec![255usize, 256, 257, 511, 512, 513, 1023, 1024, 1025]), 1 => 200usize..1100],
        prop_oneof![2 => Just(Vec::<i64>::new()), 1 => proptest::collection::vec(-4i64..5, 2..5)],
        any::<bool>(),
    )
        .prop_flat_map(move |(ty, m, second, decreasing)| {
            let mut first: Vec<i64> = (0..m as i64).map(|k| 2 * k - 100).collect();
            if decreasing {
                first.reverse();
            }
            let hi = 2 * (m as i64 - 1) - 100;
            let c0 = prop_oneof![2 => Just(hi), 1 => Just(hi - 1), 1 => Just(hi + 1), 1 => Just(hi - 2), 1 => Just(-100i64), 1 => Just(-101i64), 4 => -102i64..hi + 3].boxed();
            let axes = if second.is_empty() { vec![first] } else { vec![first, second.clone()] };
            let coords: Vec<BoxedStrategy<i64>> = if second.is_empty() { vec![c0] } else { vec![c0, (-6i64..7).boxed()] };
            (Just((ty, axes)), proptest::collection::vec(coords, 0..max_ops), proptest::collection::vec(any::<u16>(), max_ops), prop_oneof![3 => Just(0u8), 1 => 1u8..4])
        })
        .prop_map(|((ty, axes), points, perm_keys, edges_mode)| HistCase { ty, axes, points, perm_keys, edges_mode })
}

/// HistogramExt::histogram on matrices of tens of thousands of rows (row counts around 65536
/// and 131072), most of them in one bin. The rows are expanded from (rows, class, seed) inside
/// the check (140 000 points would not fit a replay file sensibly).
#[derive(Clone, Debug, Serialize, Deserialize, Hash)]
pub struct HistMatCase {
    pub ty: HTy,
    pub axes: Vec<Vec<i64>>,
    pub rows: usize,
    pub class: u8,
    pub seed: u64,
    pub column_major: bool,
}

pub fn check_hist_matrix_t<T: HEl>(c: &HistMatCase) -> CheckResult {
    let nd = c.axes.len();
    if nd == 0 || c.rows == 0 {
        return Ok(Info::discarded());
    }
    let sorted: Vec<Vec<T>> = c.axes.iter().map(|a| a.iter().map(|&v| T::from_i(v)).collect::<BTreeSet<T>>().into_iter().collect()).collect();
    let shape: Vec<usize> = sorted.iter().map(|s| s.len().saturating_sub(1)).collect();
    let grid = Grid::from(c.axes.iter().map(|a| Bins::new(Edges::from(a.iter().map(|&v| T::from_i(v)).collect::<Vec<T>>()))).collect::<Vec<_>>());
    let mut next = crate::gen::splitmix(c.seed);
    let lo: Vec<i64> = c.axes.iter().map(|a| a.iter().min().cloned().unwrap_or(0)).collect();
    let hi: Vec<i64> = c.axes.iter().map(|a| a.iter().max().cloned().unwrap_or(0)).collect();
    let random_point = |next: &mut dyn FnMut() -> u64| -> Vec<i64> { (0..nd).map(|k| lo[k] - 1 + (next() % (hi[k] - lo[k] + 3) as u64) as i64).collect() };
    let home = random_point(&mut next);
    let mut flat: Vec<i64> = Vec::with_capacity(c.rows * nd);
    for r in 0..c.rows {
        let p = match c.class % 4 {
            0 => home.clone(),
            1 => {
                if r % 1000 == 999 {
                    random_point(&mut next)
                } else {
                    home.clone()
                }
            }
            2 => random_point(&mut next),
            _ => {
                if r < 65_536 {
                    home.clone()
                } else {
                    random_point(&mut next)
                }
            }
        };
        flat.extend(p);
    }
    let mut model: Model = BTreeMap::new();
    for r in 0..c.rows {
        let idx: Option<Vec<usize>> = (0..nd).map(|k| model_bin(&sorted[k], &T::from_i(flat[r * nd + k]))).collect();
        if let Some(idx) = idx {
            *model.entry(idx).or_insert(0) += 1;
        }
    }
    let m_c = Array2::from_shape_vec((c.rows, nd), flat.iter().map(|&v| T::from_i(v)).collect::<Vec<T>>()).unwrap();
    let hm = if c.column_major {
        let mut m_f = Array2::from_elem((c.rows, nd).f(), T::from_i(0));
        m_f.assign(&m_c);
        catch(|| m_f.histogram(grid))
    } else {
        catch(|| m_c.histogram(grid))
    };
    let hm = match hm {
        Ok(h) => h,
        Err(p) => fail!("panic", "histogram() of a {} x {} matrix panicked: {} (edges {:?}, class {}, seed {})", c.rows, nd, p, c.axes, c.class, c.seed),
    };
    if let Err(e) = counts_equal(&hm.counts(), &model, &shape) {
        fail!("wrong-value", "histogram() of a {} x {} matrix: {} (edges {:?}; rows expanded from class {}, seed {}; most rows at {:?})", c.rows, nd, e, c.axes, c.class, c.seed, home);
    }
    let biggest = model.values().max().cloned().unwrap_or(0);
    Ok(Info::new(biggest >= 2 && shape.iter().all(|&s| s >= 1)).class("matrix-form:long").class_if(biggest >= 65_536, "one-bin>=65536-observations").class_if(c.rows >= 65_536, "rows>=65536"))
}

pub fn check_hist_matrix(c: &HistMatCase) -> CheckResult {
    dispatch_h!(c.ty, check_hist_matrix_t(c))
}

fn hist_matrix_strategy(max_rows: usize) -> impl Strategy<Value = HistMatCase> {
    (
        proptest::sample::select(vec![HTy::I32, HTy::N64, HTy::I64]),
        proptest::collection::vec(proptest::collection::vec(-6i64..7, 2..7), 1..=2),
        crate::gen::long_len(20_000, max_rows),
        0u8..4,
        any::<u64>(),
        any::<bool>(),
    )
        .prop_map(|(ty, axes, rows, class, seed, column_major)| HistMatCase { ty, axes, rows, class, seed, column_major })
}

pub fn run_c11(ctx: &Ctx) {
    let t = ctx.tier();
    ctx.run_proptest("hist", t.pick(40_000, 1_000_000), hist_strategy(t.pick(60, 120)), &check_hist);
    // long histories (thousands of observations)
    ctx.run_proptest("hist-long", t.pick(300, 8_000), hist_strategy(t.pick(3_000, 6_000)), &check_hist);
    ctx.run_proptest("hist-wide", t.pick(1_500, 40_000), hist_wide_strategy(t.pick(120, 300)), &check_hist);
    ctx.run_proptest("hist-matrix-long", t.pick(80, 2_400), hist_matrix_strategy(t.pick(140_000, 200_000)), &check_hist_matrix);
}

// ---------------------------------------------------------------------------------------
// C12

#[derive(Clone, Copy, Debug, Serialize, Deserialize, Hash, PartialEq, Eq)]
pub enum BStrat {
    Sqrt,
    Rice,
    Sturges,
    FreedmanDiaconis,
    Auto,
}
pub const BSTRATS: [BStrat; 5] = [BStrat::Sqrt, BStrat::Rice, BStrat::Sturges, BStrat::FreedmanDiaconis, BStrat::Auto];

#[derive(Clone, Copy, Debug, Serialize, Deserialize, Hash, PartialEq, Eq)]
pub enum STy {
    I32,
    I64,
    U32,
    Usize,
    N64,
}

#[derive(Clone, Debug, Serialize, Deserialize, Hash)]
pub struct StratCase {
    pub ty: STy,
    pub strat: BStrat,
    /// columns of observations (abstract encoding); one column = direct from_array,
    /// several = GridBuilder
    pub columns: Vec<Vec<i128>>,
    pub via_grid_builder: bool,
}

pub trait SEl: Abs + Ord + Clone + num_traits::FromPrimitive + num_traits::NumOps + num_traits::Zero {
    const FLOAT: bool;
    fn as_f(&self) -> f64;
    fn as_i(&self) -> i128;
    /// largest value of an integer element type
    fn tmax() -> i128 {
        i128::MAX
    }
}
macro_rules! sel_int {
    ($($t:ty),*) => {$(
        impl SEl for $t {
            const FLOAT: bool = false;
            fn as_f(&self) -> f64 { *self as f64 }
            fn as_i(&self) -> i128 { *self as i128 }
            fn tmax() -> i128 { <$t>::MAX as i128 }
        }
    )*};
}
sel_int!(i32, i64, u32, usize);
impl SEl for N64 {
    const FLOAT: bool = true;
    fn as_f(&self) -> f64 {
        self.raw()
    }
    fn as_i(&self) -> i128 {
        0
    }
}

struct Built<T: Ord> {
    width: T,
    n_bins: usize,
    bins: Bins<T>,
}

enum Outcome<T: Ord> {
    Built(Built<T>),
    Empty,
    Strategy,
    OutOfDomain,
}

const MAX_BINS: f64 = 3.0e5;

fn build_one<T: SEl, B: BinsBuildingStrategy<Elem = T>>(data: &Array1<T>, width_of: impl Fn(&B) -> T) -> Result<Outcome<T>, Failure> {
    let b = match catch(|| B::from_array(data)) {
        Ok(Ok(b)) => b,
        Ok(Err(e)) => {
            return Ok(if e.is_empty_input() {
                Outcome::Empty
            } else if e.is_strategy() {
                Outcome::Strategy
            } else {
                return Err(Failure::new("error-kind", format!("from_array returned an undocumented error {:?}", e)));
            })
        }
        Err(p) => return Err(Failure::new("panic", format!("from_array panicked: {}", p))),
    };
    let width = width_of(&b);
    let mn = data.iter().min().unwrap().clone();
    let mx = data.iter().max().unwrap().clone();
    // expected bin count from the public bin_width()
    let r = if T::FLOAT { (mx.as_f() - mn.as_f()) / width.as_f() } else { (mx.as_i() - mn.as_i()) as f64 / (width.as_i().max(1)) as f64 };
    if !(r <= MAX_BINS) {
        return Ok(Outcome::OutOfDomain);
    }
    // integers: the property quantifies over data whose maximum plus one bin width is representable
    if !T::FLOAT && mx.as_i() + width.as_i() > T::tmax() {
        return Ok(Outcome::OutOfDomain);
    }
    let fuel = 64 * (r as u64 + 2) + 1000;
    ndarray_stats::verif_hooks::set_fuel(Some(fuel));
    let nb = catch(|| b.n_bins());
    ndarray_stats::verif_hooks::set_fuel(Some(fuel));
    let bins = catch(|| b.build());
    ndarray_stats::verif_hooks::set_fuel(None);
    let n_bins = match nb {
        Ok(n) => n,
        Err(p) if p.contains(ndarray_stats::verif_hooks::FUEL_EXHAUSTED) => {
            return Err(Failure::new("fuel", format!("n_bins() ran more than {} iterations of its counting loop although (max-min)/width = {:.3} (min {:?}, max {:?}, width {:?}): construction does not terminate in proportion to the number of bins", fuel, r, mn, mx, width)))
        }
        Err(p) => return Err(Failure::new("panic", format!("n_bins() panicked: {}", p))),
    };
    let bins = match bins {
        Ok(b) => b,
        Err(p) if p.contains(ndarray_stats::verif_hooks::FUEL_EXHAUSTED) => return Err(Failure::new("fuel", format!("build() exceeded the iteration budget {} ((max-min)/width = {:.3})", fuel, r))),
        Err(p) => return Err(Failure::new("panic", format!("build() panicked: {}", p))),
    };
    Ok(Outcome::Built(Built { width, n_bins, bins }))
}

fn build_strat<T: SEl>(strat: BStrat, data: &Array1<T>) -> Result<Outcome<T>, Failure> {
    match strat {
        BStrat::Sqrt => build_one::<T, Sqrt<T>>(data, |b| b.bin_width()),
        BStrat::Rice => build_one::<T, Rice<T>>(data, |b| b.bin_width()),
        BStrat::Sturges => build_one::<T, Sturges<T>>(data, |b| b.bin_width()),
        BStrat::FreedmanDiaconis => build_one::<T, FreedmanDiaconis<T>>(data, |b| b.bin_width()),
        BStrat::Auto => build_one::<T, Auto<T>>(data, |b| b.bin_width()),
    }
}

fn grid_of<T: SEl>(strat: BStrat, m: &Array2<T>) -> Result<Result<Grid<T>, ndarray_stats::histogram::errors::BinsBuildError>, String> {
    ndarray_stats::verif_hooks::set_fuel(Some(64 * (MAX_BINS as u64 + 2) * 4));
    let r = catch(|| match strat {
        BStrat::Sqrt => GridBuilder::<Sqrt<T>>::from_array(m).map(|b| b.build()),
        BStrat::Rice => GridBuilder::<Rice<T>>::from_array(m).map(|b| b.build()),
        BStrat::Sturges => GridBuilder::<Sturges<T>>::from_array(m).map(|b| b.build()),
        BStrat::FreedmanDiaconis => GridBuilder::<FreedmanDiaconis<T>>::from_array(m).map(|b| b.build()),
        BStrat::Auto => GridBuilder::<Auto<T>>::from_array(m).map(|b| b.build()),
    });
    ndarray_stats::verif_hooks::set_fuel(None);
    r
}

pub fn check_strat_t<T: SEl>(c: &StratCase) -> CheckResult {
    if c.columns.is_empty() || c.columns.iter().any(|col| col.len() != c.columns[0].len()) {
        return Ok(Info::discarded());
    }
    let n = c.columns[0].len();
    let mut info = Info::new(false);
    let mut any_nontrivial = false;
    let mut all_built = true;
    let mut per_axis_edges: Vec<Vec<T>> = vec![];
    for (ci, col) in c.columns.iter().enumerate() {
        let data: Array1<T> = col.iter().map(|&v| T::from_abs(v)).collect();
        let out = build_strat::<T>(c.strat, &data)?;
        let distinct: BTreeSet<T> = data.iter().cloned().collect();
        match out {
            Outcome::Empty => {
                ensure!(n == 0, "error-kind", "{:?}::from_array returned EmptyInput for {} observations", c.strat, n);
                info = info.class("empty-data");
                all_built = false;
            }
            Outcome::Strategy => {
                ensure!(n > 0, "error-kind", "{:?}::from_array returned Strategy for empty data (expected EmptyInput)", c.strat);
                // rejections of non-constant data are allowed
                info = info.class(if distinct.len() == 1 { "constant-data" } else { "non-constant-rejected" });
                all_built = false;
            }
            Outcome::OutOfDomain => {
                return Ok(Info::discarded());
            }
            Outcome::Built(b) => {
                ensure!(n > 0, "error-kind", "{:?}::from_array accepted empty data (expected EmptyInput)", c.strat);
                ensure!(distinct.len() >= 2, "error-kind", "{:?}::from_array accepted constant data {:?} (expected the Strategy error)", c.strat, data.iter().next());
                let mn = distinct.iter().next().unwrap().clone();
                let mx = distinct.iter().next_back().unwrap().clone();
                let nb = b.bins.len();
                ensure!(nb >= 1, "wrong-value", "column {}: no bins were built for non-constant data", ci);
                let edges: Vec<T> = (0..nb).map(|i| b.bins.index(i).start).chain(std::iter::once(b.bins.index(nb - 1).end)).collect();
                ensure!(edges[0] == mn, "wrong-value", "column {}: first edge {:?} is not the data minimum {:?} ({:?}, width {:?})", ci, edges[0], mn, c.strat, b.width);
                let last = edges[nb].clone();
                ensure!(last > mx, "wrong-value", "column {}: last edge {:?} is not strictly above the data maximum {:?} ({:?}, min {:?}, width {:?}, {} bins): the maximum falls into no bin", ci, last, mx, c.strat, mn, b.width, nb);
                if T::FLOAT {
                    let w = b.width.as_f();
                    // the documented placement is `min + i*width`: the product i*width is rounded at
                    // ITS magnitude, which exceeds every edge when the minimum is negative
                    let maxedge = edges.iter().fold(0.0f64, |m, e| m.max(e.as_f().abs())).max((last.as_f() - edges[0].as_f()).abs());
                    let u2 = 2.0 * ulp64(maxedge);
                    ensure!(last.as_f() - mx.as_f() <= w + u2, "wrong-value", "column {}: last edge {:?} exceeds the maximum {:?} by more than one bin width {:?}", ci, last, mx, b.width);
                    let separated = w >= 4.0 * ulp64(maxedge);
                    if separated {
                        ensure!(b.n_bins == nb, "wrong-value", "column {}: n_bins() = {} but {} bins were built (min {:?}, max {:?}, width {:?})", ci, b.n_bins, nb, mn, mx, b.width);
                        for i in 0..nb {
                            let d = edges[i + 1].as_f() - edges[i].as_f();
                            ensure!((d - w).abs() <= u2, "wrong-value", "column {}: bin {} has width {:e}, expected {:e} (+- 2 ulp of the largest edge)", ci, i, d, w);
                        }
                    } else {
                        info = info.class("float-width-below-4ulp");
                    }
                } else {
                    let w = b.width.as_i();
                    ensure!(last.as_i() - mx.as_i() <= w, "wrong-value", "column {}: last edge {:?} exceeds the maximum {:?} by more than one bin width {:?}", ci, last, mx, b.width);
                    ensure!(b.n_bins == nb, "wrong-value", "column {}: n_bins() = {} but {} bins were built", ci, b.n_bins, nb);
                    for i in 0..nb {
                        ensure!(edges[i + 1].as_i() - edges[i].as_i() == w, "wrong-value", "column {}: bin {} is {:?}..{:?}, not {:?} wide", ci, i, edges[i], edges[i + 1], b.width);
                    }
                }
                // every observation falls into exactly one bin
                let mut total = 0usize;
                for x in data.iter() {
                    match b.bins.index_of(x) {
                        Some(i) => {
                            let r = b.bins.index(i);
                            ensure!(r.start <= *x && *x < r.end, "wrong-value", "observation {:?} was assigned bin {:?}", x, r);
                            total += 1;
                        }
                        None => fail!("wrong-value", "column {}: observation {:?} falls into no bin (edges from {:?} to {:?}, width {:?}, {:?})", ci, x, edges[0], last, b.width, c.strat),
                    }
                }
                ensure!(total == n, "wrong-value", "only {} of {} observations were binned", total, n);
                let span = mx.as_f() - mn.as_f();
                let nt = distinct.len() >= 3
                    && if T::FLOAT {
                        true
                    } else {
                        b.width.as_i() >= 2 || span >= (1u64 << 20) as f64
                    };
                any_nontrivial |= nt;
                if nb > 65_536 {
                    info = info.class("bins>65536");
                } else if nb > 4_096 {
                    info = info.class("bins>4096");
                }
                per_axis_edges.push(edges);
            }
        }
    }
    // through GridBuilder + histogram
    if c.via_grid_builder && n > 0 {
        let d = c.columns.len();
        let mut m = Array2::from_elem((n, d), T::from_abs(c.columns[0][0]));
        for (j, col) in c.columns.iter().enumerate() {
            for (i, &v) in col.iter().enumerate() {
                m[[i, j]] = T::from_abs(v);
            }
        }
        match grid_of::<T>(c.strat, &m) {
            Err(p) => fail!("panic", "GridBuilder::from_array / build panicked: {}", p),
            Ok(Err(_)) => {
                ensure!(!all_built, "error-kind", "GridBuilder::from_array failed although {:?}::from_array accepted every column", c.strat);
            }
            Ok(Ok(grid)) => {
                ensure!(all_built, "error-kind", "GridBuilder::from_array succeeded although {:?}::from_array rejected a column", c.strat);
                ensure!(grid.ndim() == d, "wrong-value", "GridBuilder built {} axes for {} columns", grid.ndim(), d);
                for (ax, e) in per_axis_edges.iter().enumerate() {
                    let p = &grid.projections()[ax];
                    ensure!(p.len() == e.len() - 1 && (0..p.len()).all(|i| p.index(i).start == e[i] && p.index(i).end == e[i + 1]), "wrong-value", "GridBuilder axis {} differs from the bins {:?}::from_array builds for that column", ax, c.strat);
                }
                // the counts array has one cell per bin tuple: only allocate it when that is sane
                // (a harness resource bound, counted as a class; every axis was checked above)
                let cells: f64 = grid.shape().iter().map(|&b| b as f64).product();
                if cells <= 4.0e6 {
                    let h = m.histogram(grid);
                    let total: usize = h.counts().iter().sum();
                    ensure!(total == n, "wrong-value", "a histogram of the data over the strategy-built grid counts {} of {} observations", total, n);
                    info = info.class("via-GridBuilder+histogram");
                } else {
                    info = info.class("via-GridBuilder(histogram skipped: more than 4e6 cells)");
                }
            }
        }
    }
    info.nontrivial = any_nontrivial;
    Ok(info.class(match c.strat {
        BStrat::Sqrt => "strategy:Sqrt",
        BStrat::Rice => "strategy:Rice",
        BStrat::Sturges => "strategy:Sturges",
        BStrat::FreedmanDiaconis => "strategy:FreedmanDiaconis",
        BStrat::Auto => "strategy:Auto",
    })
    .class_if(all_built, "accepted")
    .class(match c.ty {
        STy::N64 => "type:N64",
        STy::I32 => "type:i32",
        STy::I64 => "type:i64",
        STy::U32 => "type:u32",
        STy::Usize => "type:usize",
    }))
}

pub fn check_strat(c: &StratCase) -> CheckResult {
    match c.ty {
        STy::I32 => check_strat_t::<i32>(c),
        STy::I64 => check_strat_t::<i64>(c),
        STy::U32 => check_strat_t::<u32>(c),
        STy::Usize => check_strat_t::<usize>(c),
        STy::N64 => check_strat_t::<N64>(c),
    }
}

fn strat_column(ty: STy, n: usize) -> BoxedStrategy<Vec<i128>> {
    match ty {
        STy::N64 => prop_oneof![
            // k/10 grids: values not exactly representable
            3 => (proptest::collection::vec(-50i32..200, n), 1u32..13).prop_map(|(v, d)| v.into_iter().map(|k| f64_abs(k as f64 / d as f64)).collect::<Vec<_>>()),
            // large offset, tiny spread (down to single ulps)
            2 => (proptest::collection::vec(0u64..40, n), prop_oneof![Just(1.0f64), Just(1.0e6), Just(1.0e12), Just(3.0e9), Just(0.1)], 0u32..20, any::<bool>()).prop_map(|(v, base, sh, neg)| {
                v.into_iter()
                    .map(|k| {
                        let x = f64::from_bits(base.to_bits() + (k << sh));
                        f64_abs(if neg { -x } else { x })
                    })
                    .collect::<Vec<_>>()
            }),
            // heavy ties with outliers (zero IQR)
            2 => (proptest::collection::vec(prop_oneof![8 => Just(1.0f64), 1 => -20.0f64..20.0], n)).prop_map(|v| v.into_iter().map(f64_abs).collect::<Vec<_>>()),
            // a narrow bulk and one far outlier: tens of thousands of bins for the IQR-based strategies
            1 => (proptest::collection::vec(0u32..1000, n), 30u32..80).prop_map(|(v, d)| {
                let far = 10f64.powf(d as f64 / 10.0);
                let m = v.len();
                v.into_iter().enumerate().map(|(i, k)| f64_abs(if i + 1 == m { far } else { k as f64 / 8.0 })).collect::<Vec<_>>()
            }),
            // general moderate values
            3 => proptest::collection::vec(moderate_f64().prop_map(f64_abs), n),
            // constant
            1 => (moderate_f64()).prop_map(move |x| vec![f64_abs(x); n]),
        ]
        .boxed(),
        _ => {
            let (lo, hi): (i128, i128) = match ty {
                STy::I32 => (i32::MIN as i128 / 4, i32::MAX as i128 / 4),
                STy::I64 => (i64::MIN as i128 / 4, i64::MAX as i128 / 4),
                STy::U32 => (0, u32::MAX as i128 / 4),
                _ => (0, u64::MAX as i128 / 4),
            };
            let base = prop_oneof![Just(0i128), Just(lo / 2), Just(hi / 2), (lo / 2)..(hi / 2)];
            prop_oneof![
                3 => (base.clone(), proptest::collection::vec(0i128..50, n)).prop_map(move |(b, v)| v.into_iter().map(|x| (b + x).max(lo).min(hi)).collect::<Vec<_>>()),
                3 => (base.clone(), proptest::collection::vec(0i128..100_000, n)).prop_map(move |(b, v)| v.into_iter().map(|x| (b + x).max(lo).min(hi)).collect::<Vec<_>>()),
                2 => (base.clone(), proptest::collection::vec(prop_oneof![8 => Just(7i128), 1 => 0i128..1000], n)).prop_map(move |(b, v)| v.into_iter().map(|x| (b + x).max(lo).min(hi)).collect::<Vec<_>>()),
                // a narrow bulk and one far outlier (10^3 .. 10^8 away): tens of thousands of bins for the IQR-based strategies
                1 => (base.clone(), proptest::collection::vec(0i128..1000, n), 30u32..80).prop_map(move |(b, v, d)| {
                    let far = 10f64.powf(d as f64 / 10.0) as i128;
                    let m = v.len();
                    v.into_iter().enumerate().map(|(i, x)| (b + if i + 1 == m { far } else { x }).max(lo).min(hi)).collect::<Vec<_>>()
                }),
                1 => proptest::collection::vec(lo..=hi, n),
                // right below the type's maximum (MAX-1040 .. MAX-41); cases whose maximum plus one bin
                // width is not representable are discarded in the check, as the property requires
                2 => proptest::collection::vec(0i128..1000, n).prop_map(move |v| {
                    let tmax = hi * 4 + 3;
                    v.into_iter().map(|x| tmax - 1040 + x).collect::<Vec<_>>()
                }),
                1 => (base).prop_map(move |b| vec![b.max(lo).min(hi); n]),
            ]
            .boxed()
        }
    }
}

fn strat_strategy(max_n: usize) -> impl Strategy<Value = StratCase> {
    (
        proptest::sample::select(vec![STy::I32, STy::I64, STy::U32, STy::Usize, STy::N64, STy::N64]),
        proptest::sample::select(BSTRATS.to_vec()),
        prop_oneof![1 => Just(0usize), 2 => 1usize..8, 6 => 1usize..max_n],
        prop_oneof![3 => Just(1usize), 1 => 2usize..=3],
    )
        .prop_flat_map(|(ty, strat, n, ncols)| (Just((ty, strat, ncols)), proptest::collection::vec(strat_column(ty, n), ncols)))
        .prop_map(|((ty, strat, ncols), columns)| StratCase { ty, strat, columns, via_grid_builder: ncols > 1 || strat == BStrat::Sqrt })
}

pub fn run_c12(ctx: &Ctx) {
    let t = ctx.tier();
    ctx.run_proptest("strat", t.pick(40_000, 400_000), strat_strategy(t.pick(400, 4_000)), &check_strat);
}

pub fn replayers_c13() -> Vec<(&'static str, ReplayFn)> {
    vec![("edges", |v| replay_with::<EdgeCase>(v, &check_edges)), ("grid", |v| replay_with::<GridCase>(v, &check_grid)), ("edges-long", |v| replay_with::<EdgeCase>(v, &check_edges)), ("edges-huge", |v| replay_with::<EdgesHugeCase>(v, &check_edges_huge))]
}
pub fn replayers_c11() -> Vec<(&'static str, ReplayFn)> {
    vec![("hist", |v| replay_with::<HistCase>(v, &check_hist)), ("hist-long", |v| replay_with::<HistCase>(v, &check_hist)), ("hist-wide", |v| replay_with::<HistCase>(v, &check_hist)), ("hist-matrix-long", |v| replay_with::<HistMatCase>(v, &check_hist_matrix))]
}
pub fn replayers_c12() -> Vec<(&'static str, ReplayFn)> {
    vec![("strat", |v| replay_with::<StratCase>(v, &check_strat))]
}

#[allow(dead_code)]
fn _unused(_: ArrayD<usize>, _: IxDyn) {}
