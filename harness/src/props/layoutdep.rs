//! C20: results do not depend on memory layout, strides or ownership.
//! Metamorphic: every routine is evaluated on a canonical owned C-order array and on a second
//! representation of the same logical array; the two result tables must agree.

use crate::core::*;
use crate::gen::*;
use crate::layout::*;
use crate::numeric::*;
use crate::props::means::{moment_reference, moment_tol, skew_kurt_tol, var_reference};
use crate::props::pairs::{corr_tol, cov_reference, cov_tol};
use crate::{ensure, fail};
use ndarray::{aview1, Array1, ArrayBase, ArrayD, ArrayViewD, Axis, CowArray, Data, Dimension, IntoDimension, Ix1, Ix2, Ix3, Ix4, IxDyn, RemoveAxis, ShapeBuilder};
use ndarray_stats::histogram::strategies::Sqrt;
use ndarray_stats::histogram::{Bins, Edges, Grid, GridBuilder};
use ndarray_stats::interpolate::{Linear, Lower, Midpoint, Nearest};
use ndarray_stats::{CorrelationExt, DeviationExt, EntropyExt, HistogramExt, MaybeNanExt, Quantile1dExt, QuantileExt, Sort1dExt, SummaryStatisticsExt};
use noisy_float::types::N64;
use proptest::prelude::*;
use serde::{Deserialize, Serialize};

#[derive(Clone, Copy, Debug, Serialize, Deserialize, Hash, PartialEq, Eq)]
pub enum Rep {
    /// owned, column-major
    OwnedF,
    /// view into a sentinel parent with the generated layout
    View,
    /// mutable view (same layout)
    ViewMut,
    /// ArcArray
    Shared,
    /// CowArray borrowing the laid-out view
    Cow,
    /// the laid-out view with a static dimension type (Ix1..Ix4)
    StaticView,
}

#[derive(Clone, Debug, Serialize, Deserialize, Hash)]
pub struct LdCase {
    pub shape: Vec<usize>,
    pub axis: usize,
    pub layout_a: LayoutSpec,
    pub rep_a: Rep,
    pub layout_b: LayoutSpec,
    pub rep_b: Rep,
    /// data as small integers; floats are k/2 (f64), options use the mask
    pub a: Vec<i16>,
    pub b: Vec<u8>,
    pub mask: Vec<bool>,
    /// q as f64 bits, in [0,1]
    pub qs: Vec<u64>,
}

#[derive(Clone, Debug)]
pub enum Res {
    /// order-based / integer / shape / error results: must be identical
    Exact(Vec<i128>),
    /// floating-point results with the absolute budget of one evaluation
    Float(Vec<f64>, f64),
    /// an index into the logical array (row-major flat), or None; compared through the value
    Index(Option<usize>, bool),
}

type Table = Vec<(&'static str, Res)>;

fn fl(v: f64, tol: f64) -> Res {
    Res::Float(vec![v], tol)
}
fn fbits(x: f64) -> i128 {
    if x.is_nan() {
        -1
    } else {
        x.to_bits() as i128
    }
}
fn err_code<T, E: std::fmt::Debug>(r: &Result<T, E>) -> i128 {
    match r {
        Ok(_) => 0,
        Err(e) => 1 + crate::core::hash_str(&format!("{:?}", e)) as i128 % 1000,
    }
}
fn flat_of<D: Dimension>(shape: &[usize], p: D::Pattern) -> usize
where
    D::Pattern: IntoDimension<Dim = D>,
{
    let d = p.into_dimension();
    if d.slice().len() != shape.len() {
        // an index of the wrong dimensionality designates no element
        return usize::MAX;
    }
    let mut f = 0usize;
    for (k, &i) in d.slice().iter().enumerate() {
        if i >= shape[k] {
            return usize::MAX;
        }
        f = f * shape[k] + i;
    }
    f
}

struct Bud {
    n: usize,
    g: f64,
    sum_abs: f64,
    mean_abs_ln: f64,
    ent_abs: f64,
    positive: bool,
    data: Vec<f64>,
}

fn budget(data: &[f64]) -> Bud {
    let n = data.len();
    Bud {
        n,
        g: gamma::<f64>(n.max(1)),
        sum_abs: data.iter().map(|x| x.abs()).sum(),
        mean_abs_ln: if n == 0 { 0.0 } else { data.iter().map(|x| x.abs().ln().abs()).filter(|x| x.is_finite()).sum::<f64>() / n as f64 },
        ent_abs: data.iter().map(|&x| if x > 0.0 { (x * x.ln()).abs() } else { 0.0 }).sum(),
        positive: data.iter().all(|x| *x > 0.0),
        data: data.to_vec(),
    }
}

/// Single-operand f64 routines (NaN-free data unless `nan` is set for the skip-NaN forms).
fn table_f64<S, D>(a: &ArrayBase<S, D>, axis: usize, bud: &Bud, shape: &[usize]) -> Table
where
    S: Data<Elem = f64>,
    D: Dimension + RemoveAxis,
    D::Pattern: IntoDimension<Dim = D>,
{
    let mut t: Table = vec![];
    let has_nan = bud.data.iter().any(|x| x.is_nan());
    let n = bud.n;
    let g = bud.g;
    t.push(("min", match a.min() { Ok(x) => Res::Exact(vec![0, fbits(*x + 0.0)]), Err(e) => Res::Exact(vec![1 + e.clone() as i128]) }));
    t.push(("max", match a.max() { Ok(x) => Res::Exact(vec![0, fbits(*x + 0.0)]), Err(e) => Res::Exact(vec![1 + e.clone() as i128]) }));
    t.push(("argmin", match a.argmin() { Ok(p) => Res::Index(Some(flat_of::<D>(shape, p)), true), Err(_) => Res::Index(None, true) }));
    t.push(("argmax", match a.argmax() { Ok(p) => Res::Index(Some(flat_of::<D>(shape, p)), false), Err(_) => Res::Index(None, false) }));
    t.push(("min_skipnan", Res::Exact(vec![fbits(*a.min_skipnan() + 0.0)])));
    t.push(("max_skipnan", Res::Exact(vec![fbits(*a.max_skipnan() + 0.0)])));
    t.push(("argmin_skipnan", match a.argmin_skipnan() { Ok(p) => Res::Index(Some(flat_of::<D>(shape, p)), true), Err(_) => Res::Index(None, true) }));
    t.push(("argmax_skipnan", match a.argmax_skipnan() { Ok(p) => Res::Index(Some(flat_of::<D>(shape, p)), false), Err(_) => Res::Index(None, false) }));
    // folds / visits (order-independent accumulations: count and integer-coded sum)
    let (cnt, s2) = a.fold_skipnan((0i128, 0i128), |(c, s), x| (c + 1, s + (x.raw() * 2.0) as i128));
    t.push(("fold_skipnan", Res::Exact(vec![cnt, s2])));
    let mut vc = 0i128;
    a.visit_skipnan(|_| vc += 1);
    t.push(("visit_skipnan", Res::Exact(vec![vc])));
    let idx_sum = a.indexed_fold_skipnan(0i128, |acc, (p, x)| acc + (flat_of::<D>(shape, p) as i128 + 1) * ((x.raw() * 2.0) as i128 + 1000));
    t.push(("indexed_fold_skipnan", Res::Exact(vec![idx_sum])));
    // positional digest: the per-axis fold is not documented to visit in arbitrary order, and a
    // visiting order that depends on the memory layout makes the answer layout-dependent
    let fa = a.fold_axis_skipnan(Axis(axis), 0i128, |acc, x| (acc * 31 + (x.raw() * 2.0) as i128 + 101) % 1_000_000_007);
    t.push(("fold_axis_skipnan", Res::Exact(fa.iter().cloned().chain(fa.shape().iter().map(|&s| s as i128)).collect())));
    if !has_nan {
        let r = SummaryStatisticsExt::mean(a);
        t.push(("mean", match r { Ok(x) => fl(x, g * bud.sum_abs / n.max(1) as f64 + 1e-300), Err(_) => Res::Exact(vec![1]) }));
        if bud.positive {
            t.push(("harmonic_mean", match a.harmonic_mean() { Ok(x) => fl(x, (g + 16.0 * f64::U) * x.abs()), Err(_) => Res::Exact(vec![1]) }));
            t.push(("geometric_mean", match a.geometric_mean() { Ok(x) => fl(x, x.abs() * (2.0 * g * bud.mean_abs_ln + 32.0 * f64::U)), Err(_) => Res::Exact(vec![1]) }));
        }
        t.push(("entropy", match a.entropy() { Ok(x) => fl(x, 2.0 * g * bud.ent_abs + 1e-300), Err(_) => Res::Exact(vec![1]) }));
        let maxabs = bud.data.iter().fold(0.0f64, |m, x| m.max(x.abs()));
        match a.central_moments(4) {
            Ok(ms) => {
                let mut vals = vec![];
                let mut tol = 0.0f64;
                for (p, m) in ms.iter().enumerate() {
                    vals.push(*m);
                    if p >= 2 {
                        let (_, ap, ap1) = moment_reference(&bud.data, p as u32);
                        tol = tol.max(moment_tol::<f64>(n, p as u32, ap, ap1, maxabs));
                    }
                }
                t.push(("central_moments", Res::Float(vals, tol)));
            }
            Err(_) => t.push(("central_moments", Res::Exact(vec![1]))),
        }
        match a.central_moment(3) {
            Ok(m) => {
                let (_, ap, ap1) = moment_reference(&bud.data, 3);
                t.push(("central_moment", fl(m, moment_tol::<f64>(n, 3, ap, ap1, maxabs))));
            }
            Err(_) => t.push(("central_moment", Res::Exact(vec![1]))),
        }
        if n >= 1 {
            if let Some((ts, tk)) = skew_kurt_tol(&bud.data) {
                t.push(("skewness", match a.skewness() { Ok(x) => fl(x, ts), Err(_) => Res::Exact(vec![1]) }));
                t.push(("kurtosis", match a.kurtosis() { Ok(x) => fl(x, tk), Err(_) => Res::Exact(vec![1]) }));
            }
        } else {
            t.push(("skewness", Res::Exact(vec![err_code(&a.skewness())])));
            t.push(("kurtosis", Res::Exact(vec![err_code(&a.kurtosis())])));
        }
    }
    t
}

/// Two-operand f64 routines with independent storage types.
fn table_pair_f64<S1, S2, D>(a: &ArrayBase<S1, D>, b: &ArrayBase<S2, D>, da: &[f64], db: &[f64]) -> Table
where
    S1: Data<Elem = f64>,
    S2: Data<Elem = f64>,
    D: Dimension,
{
    let mut t: Table = vec![];
    let n = da.len();
    let g = gamma::<f64>(n.max(1));
    let rel = g + 16.0 * f64::U;
    let sq: f64 = da.iter().zip(db).map(|(x, y)| (x - y) * (x - y)).sum();
    let l1: f64 = da.iter().zip(db).map(|(x, y)| (x - y).abs()).sum();
    let ex = |r: &Result<usize, ndarray_stats::errors::MultiInputError>| match r {
        Ok(v) => Res::Exact(vec![0, *v as i128]),
        Err(e) => Res::Exact(vec![1, e.is_shape_mismatch() as i128]),
    };
    t.push(("count_eq", ex(&a.count_eq(b))));
    t.push(("count_neq", ex(&a.count_neq(b))));
    let f = |r: Result<f64, ndarray_stats::errors::MultiInputError>, tol: f64| match r {
        Ok(v) => fl(v, tol),
        Err(e) => Res::Exact(vec![1, e.is_shape_mismatch() as i128]),
    };
    t.push(("sq_l2_dist", f(a.sq_l2_dist(b), g * sq)));
    t.push(("l1_dist", f(a.l1_dist(b), g * l1)));
    t.push(("linf_dist", f(a.linf_dist(b), 4.0 * f64::U * l1)));
    t.push(("l2_dist", f(a.l2_dist(b), rel * sq.sqrt())));
    t.push(("mean_abs_err", f(a.mean_abs_err(b), rel * l1 / n.max(1) as f64)));
    t.push(("mean_sq_err", f(a.mean_sq_err(b), rel * sq / n.max(1) as f64)));
    t.push(("root_mean_sq_err", f(a.root_mean_sq_err(b), rel * (sq / n.max(1) as f64).sqrt())));
    t.push(("peak_signal_to_noise_ratio", f(a.peak_signal_to_noise_ratio(b, 4.0), 5.0 * rel + 1e-12)));
    // entropy family on |a| + 1/2 and b/4 + 1/4 (positive)
    t
}

/// weighted_* (both operands must have the same storage type).
fn table_weighted<S, D>(a: &ArrayBase<S, D>, w: &ArrayBase<S, D>, w1: &ArrayBase<S, Ix1>, axis: usize, da: &[f64], dw: &[f64], shape: &[usize], dw1: &[f64]) -> Table
where
    S: Data<Elem = f64>,
    D: Dimension + RemoveAxis,
{
    let mut t: Table = vec![];
    let n = da.len();
    let g = gamma::<f64>(n.max(1));
    let sabs: f64 = da.iter().zip(dw).map(|(x, w)| (x * w).abs()).sum();
    let wsum: f64 = dw.iter().sum();
    let f = |r: Result<f64, ndarray_stats::errors::MultiInputError>, tol: f64| match r {
        Ok(v) => fl(v, tol),
        Err(e) => Res::Exact(vec![1, e.is_shape_mismatch() as i128]),
    };
    t.push(("weighted_sum", f(a.weighted_sum(w), g * sabs + 1e-300)));
    if wsum > 0.0 {
        t.push(("weighted_mean", f(a.weighted_mean(w), 2.0 * g * sabs / wsum + 1e-300)));
        if let Some(vr) = var_reference(da, dw, 0.5) {
            t.push(("weighted_var", f(a.weighted_var(w, 0.5), vr.tol)));
            t.push(("weighted_std", match a.weighted_std(w, 0.5) { Ok(s) => fl(s * s, vr.tol + 8.0 * f64::U * vr.var.abs()), Err(e) => Res::Exact(vec![1, e.is_shape_mismatch() as i128]) }));
        }
    }
    // per-axis forms
    let lanes = lane_indexes(shape, axis);
    let na = shape[axis];
    let ga = gamma::<f64>(na.max(1));
    let lane_abs: f64 = lanes.iter().map(|idx| idx.iter().zip(dw1).map(|(&i, w)| (da[i] * w).abs()).sum::<f64>()).fold(0.0, f64::max);
    let fa = |r: Result<ndarray::Array<f64, D::Smaller>, ndarray_stats::errors::MultiInputError>, tol: f64| match r {
        Ok(v) => Res::Float(v.iter().cloned().collect(), tol),
        Err(e) => Res::Exact(vec![1, e.is_shape_mismatch() as i128]),
    };
    t.push(("weighted_sum_axis", fa(a.weighted_sum_axis(Axis(axis), w1), ga * lane_abs + 1e-300)));
    let w1sum: f64 = dw1.iter().sum();
    if w1sum > 0.0 {
        t.push(("weighted_mean_axis", fa(a.weighted_mean_axis(Axis(axis), w1), 2.0 * ga * lane_abs / w1sum + 1e-300)));
        let refs: Vec<_> = lanes.iter().map(|idx| var_reference(&idx.iter().map(|&i| da[i]).collect::<Vec<f64>>(), dw1, 1.0)).collect();
        if refs.iter().all(|r| r.is_some()) && !refs.is_empty() {
            let tol = refs.iter().map(|r| r.as_ref().unwrap().tol).fold(0.0, f64::max);
            let vmax = refs.iter().map(|r| r.as_ref().unwrap().var.abs()).fold(0.0, f64::max);
            t.push(("weighted_var_axis", fa(a.weighted_var_axis(Axis(axis), w1, 1.0), tol)));
            t.push(("weighted_std_axis", match a.weighted_std_axis(Axis(axis), w1, 1.0) { Ok(v) => Res::Float(v.iter().map(|s| s * s).collect(), tol + 8.0 * f64::U * vmax), Err(e) => Res::Exact(vec![1, e.is_shape_mismatch() as i128]) }));
        }
    }
    t
}

fn table_entropy<S1, S2, D>(p: &ArrayBase<S1, D>, q: &ArrayBase<S2, D>, dp: &[f64], dq: &[f64]) -> Table
where
    S1: Data<Elem = f64>,
    S2: Data<Elem = f64>,
    D: Dimension,
{
    let n = dp.len();
    let g = gamma::<f64>(n.max(1));
    let ce: f64 = dp.iter().zip(dq).map(|(a, b)| if *a == 0.0 { 0.0 } else { (a * b.ln()).abs() }).sum();
    let kl: f64 = dp.iter().zip(dq).map(|(a, b)| if *a == 0.0 { 0.0 } else { (a * (b / a).ln()).abs() + a.abs() }).sum();
    let f = |r: Result<f64, ndarray_stats::errors::MultiInputError>, tol: f64| match r {
        Ok(v) => fl(v, tol),
        Err(e) => Res::Exact(vec![1, e.is_shape_mismatch() as i128]),
    };
    vec![("cross_entropy", f(p.cross_entropy(q), 2.0 * g * ce + 1e-300)), ("kl_divergence", f(p.kl_divergence(q), 2.0 * g * kl + 1e-300))]
}

/// Order-based routines on an Ord element type (run on clones; results must be identical).
fn table_ord<S, D>(a: &ArrayBase<S, D>, axis: usize, qs: &[N64]) -> Table
where
    S: Data<Elem = i32>,
    D: Dimension + RemoveAxis,
{
    let mut t: Table = vec![];
    let enc = |r: Result<Vec<i32>, ndarray_stats::errors::QuantileError>, shape: Vec<usize>| match r {
        Ok(v) => Res::Exact(v.into_iter().map(|x| x as i128).chain(shape.into_iter().map(|s| 1_000_000 + s as i128)).collect()),
        Err(e) => Res::Exact(vec![-1, hash_str(&format!("{:?}", e)) as i128 % 1000]),
    };
    if let Some(&q0) = qs.first() {
        let mut c = a.to_owned();
        let r = c.quantile_axis_mut(Axis(axis), q0, &Lower);
        t.push(("quantile_axis_mut/Lower", match r { Ok(v) => enc(Ok(v.iter().cloned().collect()), v.shape().to_vec()), Err(e) => enc(Err(e), vec![]) }));
        let mut c = a.to_owned();
        let r = c.quantile_axis_mut(Axis(axis), q0, &Midpoint);
        t.push(("quantile_axis_mut/Midpoint", match r { Ok(v) => enc(Ok(v.iter().cloned().collect()), v.shape().to_vec()), Err(e) => enc(Err(e), vec![]) }));
    }
    let mut c = a.to_owned();
    let r = c.quantiles_axis_mut(Axis(axis), &aview1(qs), &Linear);
    t.push(("quantiles_axis_mut/Linear", match r { Ok(v) => enc(Ok(v.iter().cloned().collect()), v.shape().to_vec()), Err(e) => enc(Err(e), vec![]) }));
    let mut c = a.to_owned();
    let r = c.quantiles_axis_mut(Axis(axis), &aview1(qs), &Nearest);
    t.push(("quantiles_axis_mut/Nearest", match r { Ok(v) => enc(Ok(v.iter().cloned().collect()), v.shape().to_vec()), Err(e) => enc(Err(e), vec![]) }));
    t.push(("mean(int)", Res::Exact(vec![match SummaryStatisticsExt::mean(a) { Ok(m) => m as i128, Err(_) => -999_999 }])));
    t.push(("min(int)", Res::Exact(vec![match a.min() { Ok(m) => *m as i128, Err(_) => -999_999 }])));
    t.push(("max(int)", Res::Exact(vec![match a.max() { Ok(m) => *m as i128, Err(_) => -999_999 }])));
    t
}

fn table_ord_1d<S>(a: &ArrayBase<S, Ix1>, qs: &[N64], idx: &[usize]) -> Table
where
    S: Data<Elem = i32>,
{
    let mut t: Table = vec![];
    let n = a.len();
    if let Some(&q0) = qs.first() {
        let mut c = a.to_owned();
        t.push(("quantile_mut", Res::Exact(vec![match c.quantile_mut(q0, &Linear) { Ok(v) => v as i128, Err(_) => -999_999 }])));
    }
    let mut c = a.to_owned();
    t.push(("quantiles_mut", Res::Exact(match c.quantiles_mut(&aview1(qs), &Midpoint) { Ok(v) => v.iter().map(|&x| x as i128).collect(), Err(_) => vec![-999_999] })));
    if n > 0 {
        let i0 = idx.first().cloned().unwrap_or(0) % n;
        let mut c = a.to_owned();
        t.push(("get_from_sorted_mut", Res::Exact(vec![c.get_from_sorted_mut(i0) as i128])));
        let ids: Vec<usize> = idx.iter().map(|i| i % n).collect();
        let mut c = a.to_owned();
        let m = c.get_many_from_sorted_mut(&Array1::from(ids));
        t.push(("get_many_from_sorted_mut", Res::Exact(m.iter().flat_map(|(k, v)| vec![*k as i128, *v as i128]).collect())));
        let mut c = a.to_owned();
        let k = c.partition_mut(i0);
        t.push(("partition_mut", Res::Exact(vec![k as i128, c[k] as i128])));
    }
    t
}

/// Option<i32>: skip-NaN family incl. the mutating quantile (on a clone).
fn table_opt<S, D>(a: &ArrayBase<S, D>, axis: usize, q: N64, shape: &[usize]) -> Table
where
    S: Data<Elem = Option<i32>>,
    D: Dimension + RemoveAxis,
    D::Pattern: IntoDimension<Dim = D>,
{
    let mut t: Table = vec![];
    t.push(("min_skipnan(opt)", Res::Exact(vec![(*a.min_skipnan()).map(|x| x as i128).unwrap_or(-999_999)])));
    t.push(("max_skipnan(opt)", Res::Exact(vec![(*a.max_skipnan()).map(|x| x as i128).unwrap_or(-999_999)])));
    t.push(("argmin_skipnan(opt)", match a.argmin_skipnan() { Ok(p) => Res::Index(Some(flat_of::<D>(shape, p)), true), Err(_) => Res::Index(None, true) }));
    t.push(("argmax_skipnan(opt)", match a.argmax_skipnan() { Ok(p) => Res::Index(Some(flat_of::<D>(shape, p)), false), Err(_) => Res::Index(None, false) }));
    let mut c = a.to_owned();
    let r = c.quantile_axis_skipnan_mut(Axis(axis), q, &Nearest);
    t.push(("quantile_axis_skipnan_mut(opt)", match r { Ok(v) => Res::Exact(v.iter().map(|x| x.map(|y| y as i128).unwrap_or(-999_999)).chain(v.shape().iter().map(|&s| 1_000_000 + s as i128)).collect()), Err(_) => Res::Exact(vec![-1]) }));
    let mut c = a.to_owned();
    let lens = c.map_axis_skipnan_mut(Axis(axis), |lane| lane.len() as i128 * 1000 + lane.iter().map(|x| **x as i128).sum::<i128>());
    t.push(("map_axis_skipnan_mut(opt)", Res::Exact(lens.iter().cloned().collect())));
    let s = a.fold_skipnan(0i128, |acc, x| acc + **x as i128 + 7);
    t.push(("fold_skipnan(opt)", Res::Exact(vec![s])));
    t
}

// ---------------------------------------------------------------------------------------
// building the representations

macro_rules! with_rep {
    // calls $body with `$v` bound to a reference to the array in the requested representation
    ($rep:expr, $laid:expr, $shape:expr, $ty:ty, |$v:ident| $body:expr, |$sv:ident| $sbody:expr) => {{
        match $rep {
            Rep::OwnedF => {
                let mut o = ArrayD::<$ty>::from_elem(IxDyn($shape).f(), <$ty as El>::sentinel());
                o.assign(&$laid.view());
                let $v = &o;
                $body
            }
            Rep::View => {
                let vv = $laid.view();
                let $v = &vv;
                $body
            }
            Rep::ViewMut => {
                let mut l2 = $laid.clone();
                let vv = l2.view_mut();
                let $v = &vv;
                $body
            }
            Rep::Shared => {
                let o = $laid.view().to_owned().into_shared();
                let $v = &o;
                $body
            }
            Rep::Cow => {
                let o = CowArray::from($laid.view());
                let $v = &o;
                $body
            }
            Rep::StaticView => match $shape.len() {
                1 => {
                    let vv = $laid.view().into_dimensionality::<Ix1>().unwrap();
                    let $sv = &vv;
                    $sbody
                }
                2 => {
                    let vv = $laid.view().into_dimensionality::<Ix2>().unwrap();
                    let $sv = &vv;
                    $sbody
                }
                3 => {
                    let vv = $laid.view().into_dimensionality::<Ix3>().unwrap();
                    let $sv = &vv;
                    $sbody
                }
                _ => {
                    let vv = $laid.view().into_dimensionality::<Ix4>().unwrap();
                    let $sv = &vv;
                    $sbody
                }
            },
        }
    }};
}

fn compare(name: &str, canon: &Table, other: &Table, values: &dyn Fn(usize) -> f64) -> Result<(), Failure> {
    ensure!(canon.len() == other.len(), "wrong-value", "{}: the two representations produced different sets of results ({} vs {})", name, canon.len(), other.len());
    for ((n1, r1), (n2, r2)) in canon.iter().zip(other.iter()) {
        ensure!(n1 == n2, "wrong-value", "{}: result tables are misaligned ({} vs {})", name, n1, n2);
        match (r1, r2) {
            (Res::Exact(a), Res::Exact(b)) => {
                ensure!(a == b, "wrong-value", "{}: canonical owned C-order array gives {:?}, the other representation gives {:?} ({})", n1, a, b, name);
            }
            (Res::Float(a, ta), Res::Float(b, tb)) => {
                ensure!(a.len() == b.len(), "shape", "{}: {} vs {} values ({})", n1, a.len(), b.len(), name);
                let tol = ta.max(*tb);
                for (x, y) in a.iter().zip(b) {
                    let ok = (x.is_nan() && y.is_nan()) || x == y || (x - y).abs() <= 2.0 * tol + 8.0 * f64::U * x.abs().max(y.abs());
                    ensure!(ok, "tolerance", "{}: canonical owned C-order array gives {:e}, the other representation gives {:e}; allowed difference {:e} ({})", n1, x, y, 2.0 * tol, name);
                }
            }
            (Res::Index(a, _), Res::Index(b, _)) => {
                ensure!(a.is_some() == b.is_some(), "wrong-value", "{}: one representation returned an index, the other an error ({})", n1, name);
                if let (Some(i), Some(j)) = (a, b) {
                    ensure!(*i != usize::MAX && *j != usize::MAX, "wrong-value", "{}: a returned index does not designate an element of the array (wrong dimensionality or out of bounds) ({})", n1, name);
                    let (x, y) = (values(*i), values(*j));
                    ensure!(x == y, "wrong-value", "{}: canonical array designates logical element {} = {:e}, the other representation element {} = {:e} ({})", n1, i, x, j, y, name);
                }
            }
            _ => fail!("wrong-value", "{}: result kinds differ between the representations: {:?} vs {:?} ({})", n1, r1, r2, name),
        }
    }
    Ok(())
}

pub fn check_ld(c: &LdCase) -> CheckResult {
    let nd = c.shape.len();
    let total: usize = c.shape.iter().product();
    if nd == 0 || nd > 4 || c.axis >= nd || c.a.len() != total || c.b.len() != total || c.mask.len() != total || c.layout_a.ndim() != nd || c.layout_b.ndim() != nd {
        return Ok(Info::discarded());
    }
    let shape = &c.shape[..];
    let qs: Vec<N64> = c.qs.iter().map(|&b| N64::unchecked_new(f64::from_bits(b))).collect();
    let q0 = qs.first().cloned().unwrap_or_else(|| N64::unchecked_new(0.5));
    // ----- f64, NaN-free
    let da: Vec<f64> = c.a.iter().map(|&k| (k % 64) as f64 * 0.5).collect();
    let dw: Vec<f64> = c.b.iter().map(|&k| (k % 32) as f64 * 0.25).collect();
    let na = c.shape[c.axis];
    let dw1: Vec<f64> = (0..na).map(|i| dw.get(i).cloned().unwrap_or(1.0) + if i == 0 { 0.25 } else { 0.0 }).collect();
    let canon_a = ArrayD::from_shape_vec(IxDyn(shape), da.clone()).unwrap();
    let canon_w = ArrayD::from_shape_vec(IxDyn(shape), dw.clone()).unwrap();
    let canon_w1 = Array1::from(dw1.clone());
    let la = Laid::new(&c.layout_a, shape, &da);
    let lw = Laid::new(&c.layout_b, shape, &dw);
    let lw1 = Laid::new(&LayoutSpec { perm: vec![0], steps: vec![2], rev: vec![c.layout_b.rev[0]], pad_front: vec![1], pad_back: vec![0] }, &[na], &dw1);
    let bud = budget(&da);
    let val_a = |i: usize| da[i];
    let canon = table_f64(&canon_a, c.axis, &bud, shape);
    let other = match catch(|| with_rep!(c.rep_a, la, shape, f64, |v| table_f64(v, c.axis, &bud, shape), |v| table_f64(v, c.axis, &bud, shape))) {
        Ok(t) => t,
        Err(p) => fail!("panic", "a single-operand f64 routine panicked on representation {:?}: {}", c.rep_a, p),
    };
    compare("f64 single-operand routines", &canon, &other, &val_a)?;
    // ----- f64 with NaNs (skip-NaN forms)
    let dn: Vec<f64> = da.iter().zip(&c.mask).map(|(&x, &m)| if m { f64::NAN } else { x }).collect();
    let canon_n = ArrayD::from_shape_vec(IxDyn(shape), dn.clone()).unwrap();
    let ln = Laid::new(&c.layout_a, shape, &dn);
    let budn = budget(&dn);
    let val_n = |i: usize| dn[i];
    let canon = table_f64(&canon_n, c.axis, &budn, shape);
    let other = match catch(|| with_rep!(c.rep_a, ln, shape, f64, |v| table_f64(v, c.axis, &budn, shape), |v| table_f64(v, c.axis, &budn, shape))) {
        Ok(t) => t,
        Err(p) => fail!("panic", "a skip-NaN f64 routine panicked on representation {:?}: {}", c.rep_a, p),
    };
    compare("f64 routines on data with NaN", &canon, &other, &val_n)?;
    // skip-NaN quantile on f64 (mutating: clones)
    {
        let mut c1 = canon_n.clone();
        let r1 = c1.quantile_axis_skipnan_mut(Axis(c.axis), q0, &Lower);
        let mut l2 = ln.clone();
        let r2 = match catch(|| l2.view_mut().quantile_axis_skipnan_mut(Axis(c.axis), q0, &Lower)) {
            Ok(r) => r,
            Err(p) => fail!("panic", "quantile_axis_skipnan_mut panicked on the laid-out view: {}", p),
        };
        match (r1, r2) {
            (Ok(x), Ok(y)) => ensure!(x.shape() == y.shape() && x.iter().zip(y.iter()).all(|(a, b)| fbits(*a) == fbits(*b)), "wrong-value", "quantile_axis_skipnan_mut: canonical {:?} vs laid-out view {:?}", x, y),
            (Err(x), Err(y)) => ensure!(x == y, "wrong-value", "quantile_axis_skipnan_mut errors differ: {:?} vs {:?}", x, y),
            (x, y) => fail!("wrong-value", "quantile_axis_skipnan_mut: {:?} vs {:?}", x.is_ok(), y.is_ok()),
        }
    }
    // ----- two-operand f64: deviation + entropy (independent representations)
    {
        let canon = table_pair_f64(&canon_a, &canon_w, &da, &dw);
        let other = match catch(|| {
            with_rep!(
                c.rep_a,
                la,
                shape,
                f64,
                |va| with_rep!(c.rep_b, lw, shape, f64, |vb| table_pair_f64(va, vb, &da, &dw), |vb| table_pair_f64(va, &vb.view().into_dyn(), &da, &dw)),
                |va| with_rep!(c.rep_b, lw, shape, f64, |vb| table_pair_f64(&va.view().into_dyn(), vb, &da, &dw), |vb| table_pair_f64(&va.view().into_dyn(), &vb.view().into_dyn(), &da, &dw))
            )
        }) {
            Ok(t) => t,
            Err(p) => fail!("panic", "a deviation routine panicked on representations {:?}/{:?}: {}", c.rep_a, c.rep_b, p),
        };
        compare("deviation routines", &canon, &other, &val_a)?;
        let dp: Vec<f64> = da.iter().map(|x| x.abs() + 0.5).collect();
        let dq: Vec<f64> = dw.iter().map(|x| x + 0.25).collect();
        let cp = ArrayD::from_shape_vec(IxDyn(shape), dp.clone()).unwrap();
        let cq = ArrayD::from_shape_vec(IxDyn(shape), dq.clone()).unwrap();
        let lp = Laid::new(&c.layout_a, shape, &dp);
        let lq = Laid::new(&c.layout_b, shape, &dq);
        let canon = table_entropy(&cp, &cq, &dp, &dq);
        let other = match catch(|| table_entropy(&lp.view(), &lq.view().to_owned().into_shared(), &dp, &dq)) {
            Ok(t) => t,
            Err(p) => fail!("panic", "an entropy routine panicked: {}", p),
        };
        compare("entropy routines", &canon, &other, &val_a)?;
    }
    // ----- weighted forms (same storage type for both operands: views with different layouts, or owned F)
    {
        let canon = table_weighted(&canon_a, &canon_w, &canon_w1, c.axis, &da, &dw, shape, &dw1);
        let other = match catch(|| {
            if matches!(c.rep_a, Rep::OwnedF | Rep::Shared) {
                let mut oa = ArrayD::<f64>::from_elem(IxDyn(shape).f(), 0.0);
                oa.assign(&la.view());
                let ow = lw.view().to_owned();
                table_weighted(&oa, &ow, &canon_w1, c.axis, &da, &dw, shape, &dw1)
            } else {
                let w1v = lw1.view().into_dimensionality::<Ix1>().unwrap();
                table_weighted(&la.view(), &lw.view(), &w1v, c.axis, &da, &dw, shape, &dw1)
            }
        }) {
            Ok(t) => t,
            Err(p) => fail!("panic", "a weighted routine panicked: {}", p),
        };
        compare("weighted routines", &canon, &other, &val_a)?;
    }
    // ----- cov / pearson / histogram on 2-D
    if nd == 2 && c.shape[1] >= 2 && c.shape[0] >= 1 {
        let (v, o) = (c.shape[0], c.shape[1]);
        let rows: Vec<Vec<f64>> = (0..v).map(|i| da[i * o..(i + 1) * o].to_vec()).collect();
        let r = cov_reference(&rows);
        let c1 = canon_a.view().into_dimensionality::<Ix2>().unwrap().cov(1.0);
        let v2 = la.view().into_dimensionality::<Ix2>().unwrap();
        let c2 = match catch(|| v2.cov(1.0)) {
            Ok(x) => x,
            Err(p) => fail!("panic", "cov panicked on the laid-out view: {}", p),
        };
        match (c1, c2) {
            (Ok(x), Ok(y)) => {
                for i in 0..v {
                    for j in 0..v {
                        let tol = cov_tol::<f64>(&r, i, j, o, o as f64 - 1.0);
                        ensure!((x[[i, j]] - y[[i, j]]).abs() <= 2.0 * tol + 8.0 * f64::U * x[[i, j]].abs(), "tolerance", "cov[{}][{}]: canonical {:e} vs laid-out view {:e} (allowed {:e})", i, j, x[[i, j]], y[[i, j]], 2.0 * tol);
                    }
                }
            }
            (Err(_), Err(_)) => {}
            _ => fail!("wrong-value", "cov: one representation errs, the other does not"),
        }
        if (0..v).all(|i| (0..v).all(|j| corr_tol::<f64>(&r, i, j, o).is_some())) {
            let p1 = canon_a.view().into_dimensionality::<Ix2>().unwrap().pearson_correlation().unwrap();
            let p2 = match catch(|| v2.pearson_correlation()) {
                Ok(Ok(x)) => x,
                Ok(Err(e)) => fail!("wrong-value", "pearson_correlation failed on the laid-out view: {:?}", e),
                Err(p) => fail!("panic", "pearson_correlation panicked on the laid-out view: {}", p),
            };
            for i in 0..v {
                for j in 0..v {
                    let (_, tol) = corr_tol::<f64>(&r, i, j, o).unwrap();
                    ensure!((p1[[i, j]] - p2[[i, j]]).abs() <= 2.0 * tol, "tolerance", "pearson[{}][{}]: canonical {:e} vs laid-out view {:e}", i, j, p1[[i, j]], p2[[i, j]]);
                }
            }
        }
        // histogram over a fixed grid + GridBuilder
        let ia: Vec<i32> = c.a.iter().map(|&k| (k % 16) as i32).collect();
        let can_i = ArrayD::from_shape_vec(IxDyn(shape), ia.clone()).unwrap().into_dimensionality::<Ix2>().unwrap();
        let li = Laid::new(&c.layout_a, shape, &ia);
        let vi = li.view().into_dimensionality::<Ix2>().unwrap();
        let mk = || Grid::from((0..o).map(|k| Bins::new(Edges::from(vec![-9, -3 + k as i32, 0, 4, 9, 16]))).collect::<Vec<_>>());
        let h1 = can_i.histogram(mk());
        let h2 = match catch(|| vi.histogram(mk())) {
            Ok(h) => h,
            Err(p) => fail!("panic", "histogram panicked on the laid-out view: {}", p),
        };
        ensure!(h1.counts() == h2.counts(), "wrong-value", "histogram counts differ between the canonical matrix and the laid-out view");
        if v >= 2 {
            let g1 = GridBuilder::<Sqrt<i32>>::from_array(&can_i).map(|b| b.build());
            let g2 = match catch(|| GridBuilder::<Sqrt<i32>>::from_array(&vi).map(|b| b.build())) {
                Ok(g) => g,
                Err(p) => fail!("panic", "GridBuilder panicked on the laid-out view: {}", p),
            };
            match (g1, g2) {
                (Ok(x), Ok(y)) => ensure!(x == y, "wrong-value", "GridBuilder builds different grids for the canonical matrix and the laid-out view"),
                (Err(_), Err(_)) => {}
                _ => fail!("wrong-value", "GridBuilder: one representation errs, the other does not"),
            }
        }
    }
    // ----- order-based routines on i32
    {
        let ia: Vec<i32> = c.a.iter().map(|&k| k as i32).collect();
        let can_i = ArrayD::from_shape_vec(IxDyn(shape), ia.clone()).unwrap();
        let li = Laid::new(&c.layout_a, shape, &ia);
        let canon = table_ord(&can_i, c.axis, &qs);
        let other = match catch(|| with_rep!(c.rep_a, li, shape, i32, |v| table_ord(v, c.axis, &qs), |v| table_ord(v, c.axis, &qs))) {
            Ok(t) => t,
            Err(p) => fail!("panic", "an order-based routine panicked on representation {:?}: {}", c.rep_a, p),
        };
        compare("order-based routines (i32)", &canon, &other, &|i| ia[i] as f64)?;
        if nd == 1 {
            let idx: Vec<usize> = c.b.iter().map(|&b| b as usize).collect();
            let canon = table_ord_1d(&can_i.view().into_dimensionality::<Ix1>().unwrap(), &qs, &idx);
            let v1 = li.view().into_dimensionality::<Ix1>().unwrap();
            let other = match catch(|| match c.rep_a {
                Rep::Shared => table_ord_1d(&v1.to_owned().into_shared(), &qs, &idx),
                Rep::Cow => table_ord_1d(&CowArray::from(v1.view()), &qs, &idx),
                _ => table_ord_1d(&v1, &qs, &idx),
            }) {
                Ok(t) => t,
                Err(p) => fail!("panic", "a 1-D order-based routine panicked: {}", p),
            };
            compare("1-D order-based routines (i32)", &canon, &other, &|i| ia[i] as f64)?;
        }
        // Option<i32>
        let oa: Vec<Option<i32>> = ia.iter().zip(&c.mask).map(|(&x, &m)| if m { None } else { Some(x) }).collect();
        let can_o = ArrayD::from_shape_vec(IxDyn(shape), oa.clone()).unwrap();
        let lo = Laid::new(&c.layout_a, shape, &oa);
        let canon = table_opt(&can_o, c.axis, q0, shape);
        let other = match catch(|| with_rep!(c.rep_a, lo, shape, Option<i32>, |v| table_opt(v, c.axis, q0, shape), |v| table_opt(v, c.axis, q0, shape))) {
            Ok(t) => t,
            Err(p) => fail!("panic", "a skip-NaN routine on Option<i32> panicked on representation {:?}: {}", c.rep_a, p),
        };
        compare("skip-NaN routines (Option<i32>)", &canon, &other, &|i| oa[i].map(|x| x as f64).unwrap_or(f64::NAN))?;
    }
    let nonstd = !(c.layout_a.is_c() && !c.layout_a.padded()) || !matches!(c.rep_a, Rep::View);
    Ok(Info::new(nonstd && c.shape.iter().any(|&s| s >= 2))
        .class(c.layout_a.class())
        .class(match c.rep_a {
            Rep::OwnedF => "rep:owned-F",
            Rep::View => "rep:view",
            Rep::ViewMut => "rep:view-mut",
            Rep::Shared => "rep:shared(ArcArray)",
            Rep::Cow => "rep:copy-on-write",
            Rep::StaticView => "rep:static-dimension",
        })
        .class_if(nd >= 3, "ndim>=3")
        .class_if(c.layout_a != c.layout_b, "operands:different-layouts"))
}

fn ld_strategy() -> impl Strategy<Value = LdCase> {
    let reps = vec![Rep::OwnedF, Rep::View, Rep::View, Rep::ViewMut, Rep::Shared, Rep::Cow, Rep::StaticView, Rep::StaticView];
    (1usize..=4, proptest::sample::select(reps.clone()), proptest::sample::select(reps))
        .prop_flat_map(|(nd, rep_a, rep_b)| {
            let max_axis = match nd {
                1 => 24,
                2 => 7,
                3 => 4,
                _ => 3,
            };
            (Just((rep_a, rep_b)), shape_strategy(nd, max_axis, 60, false), 0..nd, layout_strategy(nd), layout_strategy(nd))
        })
        .prop_flat_map(|((rep_a, rep_b), shape, axis, layout_a, layout_b)| {
            let n: usize = shape.iter().product();
            (
                Just((rep_a, rep_b, shape, axis, layout_a, layout_b)),
                prop_oneof![proptest::collection::vec(-40i16..41, n), proptest::collection::vec(0i16..4, n), proptest::collection::vec(1i16..60, n)],
                proptest::collection::vec(0u8..40, n),
                proptest::collection::vec(proptest::bool::weighted(0.25), n),
                proptest::collection::vec((0u32..=64).prop_map(|k| (k as f64 / 64.0).to_bits()), 0..5),
            )
        })
        .prop_map(|((rep_a, rep_b, shape, axis, layout_a, layout_b), a, b, mask, qs)| LdCase { shape, axis, layout_a, rep_a, layout_b, rep_b, a, b, mask, qs })
}

pub fn run_c20(ctx: &Ctx) {
    let t = ctx.tier();
    ctx.run_proptest("layout", t.pick(24_000, 800_000), ld_strategy(), &check_ld);
}

pub fn replayers() -> Vec<(&'static str, ReplayFn)> {
    vec![("layout", |v| replay_with::<LdCase>(v, &check_ld))]
}

#[allow(dead_code)]
fn _u(_: ArrayViewD<'_, f64>, _: Ty) {}
