//! C06 (means and weighted sums) and C07 (variance, central moments, skewness, kurtosis):
//! agreement with exact arithmetic within an explicit forward-error budget.

use crate::core::*;
use crate::exact::*;
use crate::gen::*;
use crate::layout::*;
use crate::numeric::*;
use crate::{ensure, fail};
use ndarray::{ArrayD, ArrayViewD, Axis, Ix1};
use ndarray_stats::SummaryStatisticsExt;
use proptest::prelude::*;
use serde::{Deserialize, Serialize};

#[derive(Clone, Copy, Debug, Serialize, Deserialize, Hash, PartialEq, Eq)]
pub enum NTy {
    F64,
    F32,
    I32,
    I64,
    U32,
    Usize,
}

#[derive(Clone, Debug, Serialize, Deserialize, Hash)]
pub struct SumCase {
    pub ty: NTy,
    pub shape: Vec<usize>,
    pub layout_d: LayoutSpec,
    pub layout_w: LayoutSpec,
    pub axis: usize,
    /// abstract encoding: IEEE bits for floats, value for integers
    pub data: Vec<i128>,
    /// non-negative weights, same shape as data
    pub weights: Vec<i128>,
    /// sign pattern applied to the weights for the sum forms only
    pub neg_mask: Vec<bool>,
    /// weights for the per-axis forms (length = shape[axis])
    pub w_axis: Vec<i128>,
    pub w_axis_step: usize,
    pub w_axis_rev: bool,
    /// C07: ddof as f64 bits (in [0,1]) and the moment order
    pub ddof: u64,
    pub order: u16,
}

fn wlayout(step: usize, rev: bool) -> LayoutSpec {
    LayoutSpec { perm: vec![0], steps: vec![step.max(1)], rev: vec![rev], pad_front: vec![1], pad_back: vec![1] }
}

fn valid(c: &SumCase) -> bool {
    let total: usize = c.shape.iter().product();
    !c.shape.is_empty() && c.axis < c.shape.len() && c.data.len() == total && c.weights.len() == total && c.w_axis.len() == c.shape[c.axis] && c.layout_d.ndim() == c.shape.len() && c.layout_w.ndim() == c.shape.len() && total >= 1
}

// ---------------------------------------------------------------------------------------
// C06, floats

fn abs_sum<F: Fl>(xs: &[F], ws: Option<&[F]>) -> (Dy, Dy) {
    let mut s = Dy::zero();
    let mut a = Dy::zero();
    for (i, &x) in xs.iter().enumerate() {
        let t = match ws {
            Some(w) => dy(x).mul(&dy(w[i])),
            None => dy(x),
        };
        a = a.add(&t.abs());
        s = s.add(&t);
    }
    (s, a)
}

/// |got * den - num| <= tol_num  (all exact), i.e. |got - num/den| <= tol_num/|den|
fn within(got: f64, num: &Dy, den: &Dy, tol_num: &Dy) -> bool {
    if !got.is_finite() {
        return false;
    }
    let lhs = Dy::from_f64(got).mul(den).sub(num).abs();
    lhs.le(tol_num)
}

fn gdy(g: f64) -> Dy {
    Dy::from_f64(g)
}

pub fn check_sums_f<F: Fl>(c: &SumCase) -> CheckResult {
    if !valid(c) {
        return Ok(Info::discarded());
    }
    let n = c.data.len();
    let data: Vec<F> = c.data.iter().map(|&b| F::from_bits64(b as u64)).collect();
    let w_nonneg: Vec<F> = c.weights.iter().map(|&b| F::from_bits64(b as u64)).collect();
    let w_signed: Vec<F> = w_nonneg.iter().enumerate().map(|(i, &w)| if !c.neg_mask.is_empty() && c.neg_mask[i % c.neg_mask.len()] { -w } else { w }).collect();
    if data.iter().chain(w_nonneg.iter()).any(|x| !x.is_finite()) {
        return Ok(Info::discarded());
    }
    let ld = Laid::new(&c.layout_d, &c.shape, &data);
    let lw = Laid::new(&c.layout_w, &c.shape, &w_nonneg);
    let lws = Laid::new(&c.layout_w, &c.shape, &w_signed);
    let v = ld.view();
    let g = gamma::<F>(n);
    let tiny = Dy::from_f64(F::TINY);
    // mean
    {
        let r = match catch(|| SummaryStatisticsExt::mean(&v)) {
            Ok(Ok(r)) => r.to64(),
            Ok(Err(e)) => fail!("error-kind", "mean returned {:?} on non-empty data", e),
            Err(p) => fail!("panic", "mean panicked: {}", p),
        };
        let (s, a) = abs_sum(&data, None);
        let den = Dy::from_i128(n as i128);
        ensure!(within(r, &s, &den, &a.mul(&gdy(g)).add(&tiny)), "tolerance", "mean = {:e}, exact {:e}, allowed error {:e} (n = {}, data {:?})", r, ratio(&s, &den), g * a.to_f64() / n as f64, n, data);
    }
    // weighted_sum with signed weights
    {
        let r = match catch(|| v.weighted_sum(&lws.view())) {
            Ok(Ok(r)) => r.to64(),
            Ok(Err(e)) => fail!("error-kind", "weighted_sum returned {:?} for equal shapes", e),
            Err(p) => fail!("panic", "weighted_sum panicked: {}", p),
        };
        let (s, a) = abs_sum(&data, Some(&w_signed));
        ensure!(within(r, &s, &Dy::one(), &a.mul(&gdy(g)).add(&tiny)), "tolerance", "weighted_sum = {:e}, exact {:e}, allowed error {:e} (data {:?}, weights {:?})", r, s.to_f64(), g * a.to_f64(), data, w_signed);
    }
    // weighted_mean with non-negative weights of positive sum
    let (wsum, _) = abs_sum(&w_nonneg, None);
    let mut mean_forms = false;
    if !wsum.is_zero() {
        mean_forms = true;
        let r = match catch(|| v.weighted_mean(&lw.view())) {
            Ok(Ok(r)) => r.to64(),
            Ok(Err(e)) => fail!("error-kind", "weighted_mean returned {:?} for equal shapes", e),
            Err(p) => fail!("panic", "weighted_mean panicked: {}", p),
        };
        let (s, a) = abs_sum(&data, Some(&w_nonneg));
        // |r W - S| |W| <= gamma (A |W| + |S| sum|w|)  (sum|w| = W here)
        let lhs = Dy::from_f64(r).mul(&wsum).sub(&s).abs().mul(&wsum);
        // (the absolute term covers underflow in the products: tiny/W on the mean when W < 1)
        let rhs = a.mul(&wsum).add(&s.abs().mul(&wsum)).mul(&gdy(g)).add(&tiny.mul(&wsum).mul(&wsum)).add(&tiny.mul(&wsum));
        ensure!(r.is_finite() && lhs.le(&rhs), "tolerance", "weighted_mean = {:e}, exact {:e} (data {:?}, weights {:?})", r, ratio(&s, &wsum), data, w_nonneg);
    }
    // per-axis forms
    let na = c.shape[c.axis];
    let wa: Vec<F> = c.w_axis.iter().map(|&b| F::from_bits64(b as u64)).collect();
    if wa.iter().any(|x| !x.is_finite()) {
        return Ok(Info::discarded());
    }
    let lwa = Laid::new(&wlayout(c.w_axis_step, c.w_axis_rev), &[na], &wa);
    let wav = lwa.view().into_dimensionality::<Ix1>().unwrap();
    let lanes = lane_indexes(&c.shape, c.axis);
    let ga = gamma::<F>(na);
    {
        let r = match catch(|| v.weighted_sum_axis(Axis(c.axis), &wav)) {
            Ok(Ok(r)) => r,
            Ok(Err(e)) => fail!("error-kind", "weighted_sum_axis returned {:?} for matching lengths", e),
            Err(p) => fail!("panic", "weighted_sum_axis panicked: {}", p),
        };
        let mut ws = c.shape.clone();
        ws.remove(c.axis);
        ensure!(r.shape() == &ws[..], "shape", "weighted_sum_axis has shape {:?}, expected {:?}", r.shape(), ws);
        for (l, (got, idx)) in r.iter().zip(&lanes).enumerate() {
            let lane: Vec<F> = idx.iter().map(|&i| data[i]).collect();
            let (s, a) = abs_sum(&lane, Some(&wa));
            ensure!(within(got.to64(), &s, &Dy::one(), &a.mul(&gdy(ga)).add(&tiny)), "tolerance", "weighted_sum_axis lane {} = {:e}, exact {:e} (lane {:?}, weights {:?}, axis {})", l, got, s.to_f64(), lane, wa, c.axis);
        }
    }
    let (wasum, _) = abs_sum(&wa, None);
    if !wasum.is_zero() && wa.iter().all(|w| *w >= F::zero()) {
        let r = match catch(|| v.weighted_mean_axis(Axis(c.axis), &wav)) {
            Ok(Ok(r)) => r,
            Ok(Err(e)) => fail!("error-kind", "weighted_mean_axis returned {:?} for matching lengths", e),
            Err(p) => fail!("panic", "weighted_mean_axis panicked: {}", p),
        };
        for (l, (got, idx)) in r.iter().zip(&lanes).enumerate() {
            let lane: Vec<F> = idx.iter().map(|&i| data[i]).collect();
            let (s, a) = abs_sum(&lane, Some(&wa));
            let lhs = Dy::from_f64(got.to64()).mul(&wasum).sub(&s).abs().mul(&wasum);
            let rhs = a.mul(&wasum).add(&s.abs().mul(&wasum)).mul(&gdy(ga)).add(&tiny.mul(&wasum).mul(&wasum)).add(&tiny.mul(&wasum));
            ensure!(got.is_finite() && lhs.le(&rhs), "tolerance", "weighted_mean_axis lane {} = {:e}, exact {:e} (lane {:?}, weights {:?})", l, got, ratio(&s, &wasum), lane, wa);
        }
    }
    // harmonic / geometric mean on positive data
    let pos: Vec<F> = data.iter().map(|x| x.abs()).collect();
    let mut hg = false;
    if pos.iter().all(|x| *x > F::zero()) {
        hg = true;
        let lp = Laid::new(&c.layout_d, &c.shape, &pos);
        let pv = lp.view();
        let hm = match catch(|| pv.harmonic_mean()) {
            Ok(Ok(r)) => r.to64(),
            Ok(Err(e)) => fail!("error-kind", "harmonic_mean returned {:?} on non-empty data", e),
            Err(p) => fail!("panic", "harmonic_mean panicked: {}", p),
        };
        // HM = n / sum(1/x):  |hm * R - n| <= gamma' * n, R = sum of reciprocals (to 2^-200)
        let rsum = sum_dy(pos.iter().map(|&x| recip_dy(&dy(x))));
        let nn = Dy::from_i128(n as i128);
        let lhs = Dy::from_f64(hm).mul(&rsum).sub(&nn).abs();
        ensure!(hm.is_finite() && lhs.le(&nn.mul(&gdy(g + 8.0 * F::U))), "tolerance", "harmonic_mean = {:e}, exact {:e}, relative budget {:e} (data {:?})", hm, ratio(&nn, &rsum), g + 8.0 * F::U, pos);
        let gm = match catch(|| pv.geometric_mean()) {
            Ok(Ok(r)) => r.to64(),
            Ok(Err(e)) => fail!("error-kind", "geometric_mean returned {:?} on non-empty data", e),
            Err(p) => fail!("panic", "geometric_mean panicked: {}", p),
        };
        let logs: Vec<f64> = pos.iter().map(|x| x.to64().ln()).collect();
        let mean_log = comp_sum(logs.iter().cloned()) / n as f64;
        let mean_abs_log = comp_sum(logs.iter().map(|l| l.abs())) / n as f64;
        let reference = mean_log.exp();
        let rel = 2.0 * g * mean_abs_log + 16.0 * F::U;
        ensure!((gm - reference).abs() <= reference * rel, "tolerance", "geometric_mean = {:e}, reference {:e}, relative budget {:e} (data {:?})", gm, reference, rel, pos);
    }
    // the same positive data scaled by a huge / tiny power of two: both means scale exactly
    if hg && !F::IS32 {
        // e = 0 stands for the MIXED variant: every element gets its own power of two in
        // 2^-500..2^500 (derived from its bits), so huge and tiny elements alternate
        for e in [400i32, -400, 700, -700, 0] {
            let scaled: Vec<F> = pos
                .iter()
                .map(|x| {
                    let ee = if e == 0 { ((x.to64().to_bits() >> 7) % 1001) as i32 - 500 } else { e };
                    F::from64(x.to64() * 2f64.powi(ee))
                })
                .collect();
            if scaled.iter().any(|x| !x.is_finite() || *x <= F::zero() || x.to64() < 1e-300) {
                continue;
            }
            let ls = Laid::new(&c.layout_d, &c.shape, &scaled);
            let sv = ls.view();
            let logs: Vec<f64> = scaled.iter().map(|x| x.to64().ln()).collect();
            let mean_log = comp_sum(logs.iter().cloned()) / n as f64;
            let mean_abs_log = comp_sum(logs.iter().map(|l| l.abs())) / n as f64;
            let rel = 2.0 * g * mean_abs_log + 16.0 * F::U;
            // compare in the log domain so that the reference itself cannot overflow
            match catch(|| sv.geometric_mean()) {
                Ok(Ok(r)) => {
                    let r = r.to64();
                    ensure!(r.is_finite() && r > 0.0 && (r.ln() - mean_log).abs() <= rel + 4.0 * F::U * mean_log.abs(), "tolerance", "geometric_mean of data scaled by 2^{} = {:e}, but exp(mean ln x) has ln = {:e} (relative budget {:e}); data {:?}", e, r, mean_log, rel, scaled);
                }
                Ok(Err(er)) => fail!("error-kind", "geometric_mean returned {:?}", er),
                Err(p) => fail!("panic", "geometric_mean panicked: {}", p),
            }
            match catch(|| sv.harmonic_mean()) {
                Ok(Ok(r)) => {
                    let rsum = sum_dy(scaled.iter().map(|&x| recip_dy(&dy(x))));
                    let nn = Dy::from_i128(n as i128);
                    let lhs = Dy::from_f64(r.to64()).mul(&rsum).sub(&nn).abs();
                    ensure!(r.is_finite() && lhs.le(&nn.mul(&gdy(g + 8.0 * F::U))), "tolerance", "harmonic_mean of data scaled by 2^{} = {:e}, exact {:e}", e, r, ratio(&nn, &rsum));
                }
                Ok(Err(er)) => fail!("error-kind", "harmonic_mean returned {:?}", er),
                Err(p) => fail!("panic", "harmonic_mean panicked: {}", p),
            }
        }
    }
    // geometric mean with some subnormal elements (finite, positive: ln is exact to an ulp
    // there); the others keep their magnitude, so the mean itself stays a normal number
    let mut subnormal_checked = false;
    if hg && !F::IS32 {
        let scaled: Vec<F> = pos.iter().map(|x| if (x.to64().to_bits() >> 9) % 4 == 0 { F::from64(x.to64() * pow2(-1030)) } else { *x }).collect();
        let logs: Vec<f64> = scaled.iter().map(|x| x.to64().ln()).collect();
        let mean_log = comp_sum(logs.iter().cloned()) / n as f64;
        if scaled.iter().all(|x| *x > F::zero()) && scaled.iter().any(|x| x.to64() < f64::MIN_POSITIVE) && mean_log > -690.0 {
            subnormal_checked = true;
            let mean_abs_log = comp_sum(logs.iter().map(|l| l.abs())) / n as f64;
            let rel = 2.0 * g * mean_abs_log + 16.0 * F::U;
            let ls = Laid::new(&c.layout_d, &c.shape, &scaled);
            let sv = ls.view();
            match catch(|| sv.geometric_mean()) {
                Ok(Ok(r)) => {
                    let r = r.to64();
                    ensure!(r.is_finite() && r > 0.0 && (r.ln() - mean_log).abs() <= rel + 4.0 * F::U * mean_log.abs(), "tolerance", "geometric_mean of data with subnormal elements = {:e}, but exp(mean ln x) has ln = {:e} (relative budget {:e}); data {:?}", r, mean_log, rel, scaled);
                }
                Ok(Err(er)) => fail!("error-kind", "geometric_mean returned {:?}", er),
                Err(p) => fail!("panic", "geometric_mean panicked: {}", p),
            }
        }
    }
    let nonuniform = w_nonneg.iter().any(|w| *w != w_nonneg[0]);
    let mixed = data.iter().any(|x| *x < F::zero()) && data.iter().any(|x| *x > F::zero());
    Ok(Info::new(n >= 3 && (nonuniform || mixed))
        .class_if(subnormal_checked, "geometric:subnormal-elements")
        .class_if(n > 4096, "n>4096")
        .class_if(n > 8192, "n>8192")
        .class(if F::IS32 { "type:f32" } else { "type:f64" })
        .class(c.layout_d.class())
        .class_if(c.layout_d != c.layout_w, "data/weights:different-layouts")
        .class_if(mean_forms, "mean-forms-checked")
        .class_if(hg, "harmonic/geometric-checked")
        .class_if(mixed, "mixed-signs")
        .class_if(c.shape.len() >= 2, "ndim>=2"))
}

// ---------------------------------------------------------------------------------------
// C06, integers: exact

trait IntEl: Abs + Copy + num_traits::Zero + num_traits::FromPrimitive + std::ops::Add<Output = Self> + std::ops::Mul<Output = Self> + std::ops::Div<Output = Self> {
    fn i(self) -> i128;
}
macro_rules! intel {
    ($($t:ty),*) => {$( impl IntEl for $t { fn i(self) -> i128 { self as i128 } } )*};
}
intel!(i32, i64, u32, usize);

fn check_sums_i<T: IntEl>(c: &SumCase) -> CheckResult {
    if !valid(c) {
        return Ok(Info::discarded());
    }
    let n = c.data.len();
    let data: Vec<T> = c.data.iter().map(|&v| T::from_abs(v)).collect();
    let w: Vec<T> = c.weights.iter().map(|&v| T::from_abs(v)).collect();
    let ld = Laid::new(&c.layout_d, &c.shape, &data);
    let lw = Laid::new(&c.layout_w, &c.shape, &w);
    let v = ld.view();
    let s: i128 = data.iter().map(|x| x.i()).sum();
    let ws: i128 = data.iter().zip(&w).map(|(x, w)| x.i() * w.i()).sum();
    let wsum: i128 = w.iter().map(|x| x.i()).sum();
    let m = match catch(|| SummaryStatisticsExt::mean(&v)) {
        Ok(Ok(r)) => r.i(),
        Ok(Err(e)) => fail!("error-kind", "mean returned {:?} on non-empty data", e),
        Err(p) => fail!("panic", "mean panicked: {}", p),
    };
    ensure!(m == s / n as i128, "wrong-value", "integer mean = {}, exact sum {} / n {} = {} (the type's truncating division); data {:?}", m, s, n, s / n as i128, data);
    let r = match catch(|| v.weighted_sum(&lw.view())) {
        Ok(Ok(r)) => r.i(),
        Ok(Err(e)) => fail!("error-kind", "weighted_sum returned {:?}", e),
        Err(p) => fail!("panic", "weighted_sum panicked: {}", p),
    };
    ensure!(r == ws, "wrong-value", "integer weighted_sum = {}, exact {} (data {:?}, weights {:?}, layouts {:?} / {:?})", r, ws, data, w, c.layout_d, c.layout_w);
    if wsum != 0 {
        let r = match catch(|| v.weighted_mean(&lw.view())) {
            Ok(Ok(r)) => r.i(),
            Ok(Err(e)) => fail!("error-kind", "weighted_mean returned {:?}", e),
            Err(p) => fail!("panic", "weighted_mean panicked: {}", p),
        };
        ensure!(r == ws / wsum, "wrong-value", "integer weighted_mean = {}, exact {} / {} = {}", r, ws, wsum, ws / wsum);
    }
    let na = c.shape[c.axis];
    let wa: Vec<T> = c.w_axis.iter().map(|&v| T::from_abs(v)).collect();
    let lwa = Laid::new(&wlayout(c.w_axis_step, c.w_axis_rev), &[na], &wa);
    let wav = lwa.view().into_dimensionality::<Ix1>().unwrap();
    let lanes = lane_indexes(&c.shape, c.axis);
    let r = match catch(|| v.weighted_sum_axis(Axis(c.axis), &wav)) {
        Ok(Ok(r)) => r,
        Ok(Err(e)) => fail!("error-kind", "weighted_sum_axis returned {:?}", e),
        Err(p) => fail!("panic", "weighted_sum_axis panicked: {}", p),
    };
    let wasum: i128 = wa.iter().map(|x| x.i()).sum();
    let rm: Option<ArrayD<T>> = if wasum != 0 {
        match catch(|| v.weighted_mean_axis(Axis(c.axis), &wav)) {
            Ok(Ok(r)) => Some(r),
            Ok(Err(e)) => fail!("error-kind", "weighted_mean_axis returned {:?}", e),
            Err(p) => fail!("panic", "weighted_mean_axis panicked: {}", p),
        }
    } else {
        None
    };
    for (l, idx) in lanes.iter().enumerate() {
        let exact: i128 = idx.iter().zip(&wa).map(|(&i, w)| data[i].i() * w.i()).sum();
        let got = r.iter().nth(l).unwrap().i();
        ensure!(got == exact, "wrong-value", "integer weighted_sum_axis lane {} = {}, exact {} (axis {}, shape {:?})", l, got, exact, c.axis, c.shape);
        if let Some(rm) = &rm {
            let gotm = rm.iter().nth(l).unwrap().i();
            ensure!(gotm == exact / wasum, "wrong-value", "integer weighted_mean_axis lane {} = {}, exact {} / {}", l, gotm, exact, wasum);
        }
    }
    let nonuniform = w.iter().any(|x| x.i() != w[0].i());
    Ok(Info::new(n >= 3 && nonuniform).class("type:integer").class(c.layout_d.class()).class_if(c.layout_d != c.layout_w, "data/weights:different-layouts"))
}

pub fn check_sums(c: &SumCase) -> CheckResult {
    match c.ty {
        NTy::F64 => check_sums_f::<f64>(c),
        NTy::F32 => check_sums_f::<f32>(c),
        NTy::I32 => check_sums_i::<i32>(c),
        NTy::I64 => check_sums_i::<i64>(c),
        NTy::U32 => check_sums_i::<u32>(c),
        NTy::Usize => check_sums_i::<usize>(c),
    }
}

// ---------------------------------------------------------------------------------------
// C07

/// exact weighted variance pieces: (W, S1, Q) = (sum w, sum w x, sum w x^2)
fn var_pieces<F: Fl>(xs: &[F], ws: &[F]) -> (Dy, Dy, Dy) {
    let mut w = Dy::zero();
    let mut s = Dy::zero();
    let mut q = Dy::zero();
    for (x, wt) in xs.iter().zip(ws) {
        let dx = dy(*x);
        let dw = dy(*wt);
        w = w.add(&dw);
        let wx = dw.mul(&dx);
        q = q.add(&wx.mul(&dx));
        s = s.add(&wx);
    }
    (w, s, q)
}

pub struct VarRef {
    pub var: f64,
    pub tol: f64,
    pub resolving: bool,
}

/// Exact weighted variance and its range-based budget (DESIGN.md appendix C).
pub fn var_reference<F: Fl>(xs: &[F], ws: &[F], ddof: F) -> Option<VarRef> {
    let n = xs.len();
    let (w, s, q) = var_pieces(xs, ws);
    if w.is_zero() || w.is_negative() {
        return None;
    }
    let d = w.sub(&dy(ddof));
    // domain: D = W - ddof > 0 and not tiny relative to W
    if !(Dy::zero().lt(&d)) || d.scale2(10).lt(&w) {
        return None;
    }
    // var = (W Q - S^2) / (W D)
    let num = w.mul(&q).sub(&s.mul(&s));
    let den = w.mul(&d);
    let var = ratio(&num, &den);
    let used: Vec<f64> = xs.iter().zip(ws).filter(|(_, w)| **w != F::zero()).map(|(x, _)| x.to64()).collect();
    let (mn, mx) = used.iter().fold((f64::INFINITY, f64::NEG_INFINITY), |(a, b), &x| (a.min(x), b.max(x)));
    let r = mx - mn;
    let mabs = used.iter().fold(0.0f64, |a, &x| a.max(x.abs()));
    let wd = ratio(&w, &d);
    let g = gamma::<F>(n);
    // underflow: with weights near the bottom of the exponent range each product w*(x-mean)*(x-mean')
    // carries an absolute error of up to one smallest subnormal (eta) times (1 + r); divided by D
    let eta = if F::IS32 { 2f64.powi(-149) } else { f64::from_bits(1) };
    let df = d.to_f64();
    let uf = if df > 0.0 { 4.0 * n as f64 * eta * (1.0 + r) * (1.0 + r) * (1.0 + w.to_f64()) / df } else { f64::INFINITY };
    let tol = g * wd * r * (r + mabs) * 1.0001 + var.abs() * g * wd + F::TINY + uf;
    Some(VarRef { var, tol, resolving: tol <= var.abs() / 1024.0 })
}

/// exact central moment of order p: (1/n) sum (x - xbar)^p, and A_k = (1/n) sum |x - xbar|^k
pub fn moment_reference<F: Fl>(xs: &[F], p: u32) -> (f64, f64, f64) {
    let n = xs.len();
    let nn = Dy::from_i128(n as i128);
    let s = sum_dy(xs.iter().map(|&x| dy(x)));
    // d_i = n x_i - S  (so x_i - xbar = d_i / n)
    let ds: Vec<Dy> = xs.iter().map(|&x| dy(x).mul(&nn).sub(&s)).collect();
    let mut mp = Dy::zero();
    let mut ap = Dy::zero();
    let mut ap1 = Dy::zero();
    for d in &ds {
        let pw = d.powi(p);
        mp = mp.add(&pw);
        ap = ap.add(&pw.abs());
        if p >= 1 {
            ap1 = ap1.add(&d.powi(p - 1).abs());
        }
    }
    let den_p = nn.powi(p + 1);
    let den_p1 = nn.powi(p);
    (ratio(&mp, &den_p), ratio(&ap, &den_p), if p >= 1 { ratio(&ap1, &den_p1) } else { 1.0 })
}

pub fn moment_tol<F: Fl>(n: usize, p: u32, a_p: f64, a_p1: f64, maxabs: f64) -> f64 {
    2.0 * (2.0 * n as f64 + 4.0 * p as f64 + 8.0) * F::U * (a_p + p as f64 * maxabs * a_p1) + F::TINY
}

pub fn check_var_f<F: Fl>(c: &SumCase) -> CheckResult {
    if !valid(c) {
        return Ok(Info::discarded());
    }
    let n = c.data.len();
    let data: Vec<F> = c.data.iter().map(|&b| F::from_bits64(b as u64)).collect();
    let w: Vec<F> = c.weights.iter().map(|&b| F::from_bits64(b as u64)).collect();
    let ddof = F::from64(f64::from_bits(c.ddof));
    if data.iter().chain(w.iter()).any(|x| !x.is_finite()) || !(ddof >= F::zero() && ddof <= F::one()) {
        return Ok(Info::discarded());
    }
    let ld = Laid::new(&c.layout_d, &c.shape, &data);
    let lw = Laid::new(&c.layout_w, &c.shape, &w);
    let na = c.shape[c.axis];
    let wa: Vec<F> = c.w_axis.iter().map(|&b| F::from_bits64(b as u64)).collect();
    let lwa = Laid::new(&wlayout(c.w_axis_step, c.w_axis_rev), &[na], &wa);
    let v = ld.view();
    let mut resolving_any = false;
    let mut kappa_big = false;
    // --- weighted variance / std
    let leading_zero_weight = w.first().map(|x| *x == F::zero()).unwrap_or(false);
    if let Some(vr) = var_reference(&data, &w, ddof) {
        let r = match catch(|| v.weighted_var(&lw.view(), ddof)) {
            Ok(Ok(r)) => r.to64(),
            Ok(Err(e)) => fail!("error-kind", "weighted_var returned {:?} for equal shapes", e),
            Err(p) => fail!("panic", "weighted_var panicked: {}", p),
        };
        ensure!(
            close(r, vr.var, vr.tol, F::U),
            "tolerance",
            "weighted_var = {:e}, exact {:e}, allowed error {:e} (ddof {:e}; data {:?}; weights {:?})",
            r,
            vr.var,
            vr.tol,
            ddof,
            data,
            w
        );
        ensure!(r >= -vr.tol, "tolerance", "weighted_var = {:e} is negative beyond the error bound {:e} although all weights are non-negative", r, vr.tol);
        let sd = match catch(|| v.weighted_std(&lw.view(), ddof)) {
            Ok(Ok(r)) => r.to64(),
            Ok(Err(e)) => fail!("error-kind", "weighted_std returned {:?}", e),
            Err(p) => fail!("panic", "weighted_std panicked: {}", p),
        };
        ensure!(close(sd * sd, vr.var, vr.tol + 8.0 * F::U * vr.var.abs(), F::U), "tolerance", "weighted_std^2 = {:e}, exact variance {:e}, allowed error {:e}", sd * sd, vr.var, vr.tol);
        if r >= 0.0 {
            let want = F::from64(r).sqrt().to64();
            let ulp = if F::IS32 { ulp32(want as f32) } else { ulp64(want) };
            ensure!((sd - want).abs() <= 2.0 * ulp, "tolerance", "weighted_std = {:e} is not the square root of weighted_var = {:e}", sd, r);
        }
        resolving_any |= vr.resolving;
        if vr.resolving {
            let mabs = data.iter().fold(0.0f64, |a, x| a.max(x.to64().abs()));
            kappa_big = mabs * mabs >= 1024.0 * 1024.0 * vr.var.abs();
        }
    }
    // --- per-axis variance / std
    if wa.iter().all(|x| x.is_finite() && *x >= F::zero()) {
        let wav = lwa.view().into_dimensionality::<Ix1>().unwrap();
        let lanes = lane_indexes(&c.shape, c.axis);
        let refs: Vec<Option<VarRef>> = lanes.iter().map(|idx| var_reference(&idx.iter().map(|&i| data[i]).collect::<Vec<F>>(), &wa, ddof)).collect();
        if refs.iter().all(|r| r.is_some()) && !lanes.is_empty() {
            let rv = match catch(|| v.weighted_var_axis(Axis(c.axis), &wav, ddof)) {
                Ok(Ok(r)) => r,
                Ok(Err(e)) => fail!("error-kind", "weighted_var_axis returned {:?}", e),
                Err(p) => fail!("panic", "weighted_var_axis panicked: {}", p),
            };
            let rs = match catch(|| v.weighted_std_axis(Axis(c.axis), &wav, ddof)) {
                Ok(Ok(r)) => r,
                Ok(Err(e)) => fail!("error-kind", "weighted_std_axis returned {:?}", e),
                Err(p) => fail!("panic", "weighted_std_axis panicked: {}", p),
            };
            let mut ws = c.shape.clone();
            ws.remove(c.axis);
            ensure!(rv.shape() == &ws[..] && rs.shape() == &ws[..], "shape", "weighted_var_axis / weighted_std_axis have shapes {:?} / {:?}, expected {:?}", rv.shape(), rs.shape(), ws);
            for (l, ((gv, gs), vr)) in rv.iter().zip(rs.iter()).zip(&refs).enumerate() {
                let vr = vr.as_ref().unwrap();
                ensure!(close(gv.to64(), vr.var, vr.tol, F::U), "tolerance", "weighted_var_axis lane {} = {:e}, exact {:e}, allowed error {:e} (weights {:?}, ddof {:e})", l, gv, vr.var, vr.tol, wa, ddof);
                let s2 = gs.to64() * gs.to64();
                ensure!(close(s2, vr.var, vr.tol + 8.0 * F::U * vr.var.abs(), F::U), "tolerance", "weighted_std_axis lane {} squared = {:e}, exact variance {:e}", l, s2, vr.var);
            }
        }
    }
    // --- central moments
    let order = c.order as u32;
    let maxabs = data.iter().fold(0.0f64, |a, x| a.max(x.to64().abs()));
    let all = match catch(|| v.central_moments(c.order)) {
        Ok(Ok(r)) => r,
        Ok(Err(e)) => fail!("error-kind", "central_moments returned {:?} on non-empty data", e),
        Err(p) => fail!("panic", "central_moments panicked: {}", p),
    };
    ensure!(all.len() == order as usize + 1, "shape", "central_moments({}) returned {} values", order, all.len());
    for p in 0..=order {
        let got = all[p as usize].to64();
        if p == 0 {
            ensure!(got.to_bits() == 1.0f64.to_bits(), "wrong-value", "central moment of order 0 is {:e}, must be exactly 1", got);
            continue;
        }
        if p == 1 {
            ensure!(got == 0.0, "wrong-value", "central moment of order 1 is {:e}, must be exactly 0", got);
            continue;
        }
        // powers that overflow the element type are outside the domain ("all finite")
        let fmax = if F::IS32 { f32::MAX as f64 } else { f64::MAX };
        if (2.0 * maxabs.max(1.0)).powi(p as i32) * n as f64 >= fmax / 16.0 {
            break;
        }
        let (mu, a_p, a_p1) = moment_reference(&data, p);
        let tol = moment_tol::<F>(n, p, a_p, a_p1, maxabs);
        ensure!(close(got, mu, tol, F::U), "tolerance", "central moment of order {} = {:e}, exact {:e}, allowed error {:e} (n = {}, data {:?})", p, got, mu, tol, n, data);
        let single = match catch(|| v.central_moment(p as u16)) {
            Ok(Ok(r)) => r.to64(),
            Ok(Err(e)) => fail!("error-kind", "central_moment returned {:?}", e),
            Err(pn) => fail!("panic", "central_moment panicked: {}", pn),
        };
        ensure!(close(single, mu, tol, F::U), "tolerance", "central_moment({}) = {:e}, exact {:e}, allowed error {:e}", p, single, mu, tol);
        if p == 2 && tol <= mu.abs() / 1024.0 {
            resolving_any = true;
        }
    }
    for p in [0u16, 1] {
        let single = match catch(|| v.central_moment(p)) {
            Ok(Ok(r)) => r.to64(),
            Ok(Err(e)) => fail!("error-kind", "central_moment returned {:?}", e),
            Err(pn) => fail!("panic", "central_moment panicked: {}", pn),
        };
        ensure!(single == if p == 0 { 1.0 } else { 0.0 }, "wrong-value", "central_moment({}) = {:e}", p, single);
    }
    // --- skewness / kurtosis
    let (mu2, a2, a1) = moment_reference(&data, 2);
    let d2 = moment_tol::<F>(n, 2, a2, a1, maxabs);
    let mut shape_checked = false;
    if mu2 > 0.0 && d2 <= mu2 / 1024.0 {
        shape_checked = true;
        let (mu3, a3, a2b) = moment_reference(&data, 3);
        let d3 = moment_tol::<F>(n, 3, a3, a2b, maxabs);
        let (mu4, a4, a3b) = moment_reference(&data, 4);
        let d4 = moment_tol::<F>(n, 4, a4, a3b, maxabs);
        let skew = mu3 / mu2.powf(1.5);
        let kurt = mu4 / (mu2 * mu2);
        let tol_s = d3 / mu2.powf(1.5) + 1.5 * mu3.abs() * d2 / mu2.powf(2.5) + 8.0 * F::U * skew.abs() + 8.0 * F::U;
        let tol_k = d4 / (mu2 * mu2) + 2.0 * mu4.abs() * d2 / (mu2 * mu2 * mu2) + 8.0 * F::U * kurt.abs();
        let gs = match catch(|| v.skewness()) {
            Ok(Ok(r)) => r.to64(),
            Ok(Err(e)) => fail!("error-kind", "skewness returned {:?}", e),
            Err(p) => fail!("panic", "skewness panicked: {}", p),
        };
        ensure!(close(gs, skew, tol_s, F::U), "tolerance", "skewness = {:e}, exact mu3/mu2^1.5 = {:e}, allowed error {:e} (data {:?})", gs, skew, tol_s, data);
        let gk = match catch(|| v.kurtosis()) {
            Ok(Ok(r)) => r.to64(),
            Ok(Err(e)) => fail!("error-kind", "kurtosis returned {:?}", e),
            Err(p) => fail!("panic", "kurtosis panicked: {}", p),
        };
        ensure!(close(gk, kurt, tol_k, F::U), "tolerance", "kurtosis = {:e}, exact mu4/mu2^2 = {:e}, allowed error {:e} (data {:?})", gk, kurt, tol_k, data);
    }
    let nonconst = data.iter().any(|x| *x != data[0]);
    let nonuniform = w.iter().any(|x| *x != w[0]);
    Ok(Info::new(resolving_any && n >= 3 && nonconst && (nonuniform || order >= 3 || kappa_big))
        .class(if F::IS32 { "type:f32" } else { "type:f64" })
        .class(c.layout_d.class())
        .class_if(resolving_any, "resolving")
        .class_if(!resolving_any, "non-resolving(sanity-only)")
        .class_if(leading_zero_weight, "weights:leading-zero")
        .class_if(w.iter().any(|x| *x == F::zero()), "weights:some-zero")
        .class_if(kappa_big, "large-mean/small-spread(kappa>=2^10)")
        .class_if(n > 4096, "n>4096")
        .class_if(n > 8192, "n>8192")
        .class_if(w.iter().map(|x| x.to64()).sum::<f64>() < if F::IS32 { 1.2e-38 } else { f64::MIN_POSITIVE }, "weights:subnormal-total")
        .class_if(shape_checked, "skewness/kurtosis-checked")
        .class_if(c.layout_d != c.layout_w, "data/weights:different-layouts"))
}

pub fn check_var(c: &SumCase) -> CheckResult {
    match c.ty {
        NTy::F32 => check_var_f::<f32>(c),
        _ => check_var_f::<f64>(c),
    }
}

// ---------------------------------------------------------------------------------------
// strategies

/// Finite floats of bounded exponent range in a few conditioning classes.
pub fn float_data(f32_: bool, n: usize) -> BoxedStrategy<Vec<i128>> {
    let emax: i32 = if f32_ { 12 } else { 40 };
    let enc = move |x: f64| -> i128 {
        if f32_ {
            f32_abs(x as f32)
        } else {
            f64_abs(x)
        }
    };
    let mant = move |m: u32| -> f64 { 1.0 + (m >> if f32_ { 12 } else { 4 }) as f64 / (1u64 << if f32_ { 20 } else { 28 }) as f64 };
    prop_oneof![
        // mixed signs, moderate magnitudes
        3 => proptest::collection::vec((any::<bool>(), -6i32..7, any::<u32>()), n).prop_map(move |v| v.into_iter().map(|(s, e, m)| enc(if s { -1.0 } else { 1.0 } * mant(m) * 2f64.powi(e))).collect::<Vec<_>>()),
        // small integers and halves (ties, exact sums)
        2 => proptest::collection::vec(-20i32..21, n).prop_map(move |v| v.into_iter().map(|k| enc(k as f64 * 0.5)).collect::<Vec<_>>()),
        // common offset, small spread: kappa up to 2^20 (f64) / 2^3 (f32)
        2 => (0i32..if f32_ { 4 } else { 21 }, proptest::collection::vec(any::<u32>(), n), any::<bool>()).prop_map(move |(k, v, neg)| {
            let off = 2f64.powi(k) * if neg { -1.0 } else { 1.0 };
            v.into_iter().map(|m| enc(off + (m % 4096) as f64 / 4096.0)).collect::<Vec<_>>()
        }),
        // mixed magnitudes
        2 => proptest::collection::vec((any::<bool>(), -emax..emax, any::<u32>()), n).prop_map(move |v| v.into_iter().map(|(s, e, m)| enc(if s { -1.0 } else { 1.0 } * mant(m) * 2f64.powi(e))).collect::<Vec<_>>()),
        // positive only
        1 => proptest::collection::vec((-8i32..9, any::<u32>()), n).prop_map(move |v| v.into_iter().map(|(e, m)| enc(mant(m) * 2f64.powi(e))).collect::<Vec<_>>()),
        // everything small (or large): a common power-of-two scale on moderate data
        2 => (proptest::collection::vec((any::<bool>(), -3i32..4, any::<u32>()), n), prop_oneof![Just(-30i32), Just(-20), Just(-12), Just(10), Just(25)]).prop_map(move |(v, sc)| {
            let sc = if f32_ { sc / 3 } else { sc };
            v.into_iter().map(|(s, e, m)| enc(if s { -1.0 } else { 1.0 } * mant(m) * 2f64.powi(e + sc))).collect::<Vec<_>>()
        }),
    ]
    .boxed()
}

pub fn float_weights(f32_: bool, n: usize) -> BoxedStrategy<Vec<i128>> {
    let enc = move |x: f64| -> i128 {
        if f32_ {
            f32_abs(x as f32)
        } else {
            f64_abs(x)
        }
    };
    prop_oneof![
        3 => proptest::collection::vec(0u32..64, n).prop_map(move |v| v.into_iter().map(|k| enc(k as f64 * 0.25)).collect::<Vec<_>>()),
        2 => proptest::collection::vec((-10i32..11, any::<u16>()), n).prop_map(move |v| v.into_iter().map(|(e, m)| enc((1.0 + m as f64 / 65536.0) * 2f64.powi(e))).collect::<Vec<_>>()),
        1 => Just(vec![enc(1.0); n]),
        // uniformly tiny weights (the result must not depend on the scale of the weights)
        1 => (proptest::collection::vec(1u32..64, n), 40i32..90).prop_map(move |(v, e)| v.into_iter().map(|k| enc(k as f64 * 2f64.powi(-e))).collect::<Vec<_>>()),
        // weights at the bottom of the exponent range (subnormal running sums)
        1 => (proptest::collection::vec(1u32..64, n), if f32_ { 127i32..135 } else { 1023i32..1045 }).prop_map(move |(v, e)| v.into_iter().map(|k| enc(k as f64 * pow2(-e as i64))).collect::<Vec<_>>()),
        // explicit classes for zero weights at the first / middle / last position
        2 => (proptest::collection::vec(1u32..40, n), 0usize..4).prop_map(move |(v, pos)| {
            let n = v.len();
            let mut w: Vec<i128> = v.into_iter().map(|k| enc(k as f64 * 0.5)).collect();
            if n > 0 {
                match pos {
                    0 => w[0] = enc(0.0),
                    1 => w[n / 2] = enc(0.0),
                    2 => w[n - 1] = enc(0.0),
                    _ => {
                        w[0] = enc(0.0);
                        if n > 2 {
                            w[1] = enc(0.0);
                        }
                    }
                }
            }
            w
        }),
        1 => proptest::collection::vec(prop_oneof![Just(0u32), Just(0u32), 1u32..20], n).prop_map(move |v| v.into_iter().map(|k| enc(k as f64)).collect::<Vec<_>>()),
        // weights with full mantissas (products w*x are not exact)
        2 => proptest::collection::vec(any::<u32>(), n).prop_map(move |v| v.into_iter().map(|m| enc(0.1 + 9.9 * (m as f64 / u32::MAX as f64))).collect::<Vec<_>>()),
    ]
    .boxed()
}

fn int_data(ty: NTy, n: usize, w: bool) -> BoxedStrategy<Vec<i128>> {
    if n > 256 {
        // long inputs (n up to 2^15): smaller magnitudes so that n * max|x| * max|w| still fits
        let (lo, hi): (i128, i128) = match (ty, w) {
            (NTy::I32, false) => (-50, 50),
            (NTy::I32, true) => (0, 20),
            (NTy::I64, false) => (-(1i128 << 30), 1i128 << 30),
            (NTy::I64, true) => (0, 1i128 << 12),
            (NTy::U32, false) => (0, 100),
            (NTy::U32, true) => (0, 20),
            (_, false) => (0, 1i128 << 30),
            (_, true) => (0, 1i128 << 12),
        };
        return prop_oneof![3 => proptest::collection::vec(lo..=hi, n), 1 => proptest::collection::vec(lo.max(-3)..=hi.min(3), n)].boxed();
    }
    // magnitudes chosen so that n * max|x| * max|w| fits the type
    let (lo, hi): (i128, i128) = match (ty, w) {
        (NTy::I32, false) => (-2000, 2000),
        (NTy::I32, true) => (0, 500),
        (NTy::I64, false) => (-(1i128 << 36), 1i128 << 36),
        (NTy::I64, true) => (0, 1i128 << 16),
        (NTy::U32, false) => (0, 4000),
        (NTy::U32, true) => (0, 500),
        (_, false) => (0, 1i128 << 36),
        (_, true) => (0, 1i128 << 16),
    };
    prop_oneof![3 => proptest::collection::vec(lo..=hi, n), 1 => proptest::collection::vec(lo.max(-3)..=hi.min(3), n)].boxed()
}

pub fn sumcase_strategy(float_only: bool, max_n: usize) -> impl Strategy<Value = SumCase> {
    let tys = if float_only { vec![NTy::F64, NTy::F64, NTy::F32] } else { vec![NTy::F64, NTy::F64, NTy::F32, NTy::F32, NTy::I32, NTy::I64, NTy::U32, NTy::Usize] };
    (proptest::sample::select(tys), 1usize..=3)
        .prop_flat_map(move |(ty, nd)| {
            let cap = match ty {
                NTy::F32 => 64usize,
                NTy::F64 => max_n,
                _ => 256,
            };
            let max_axis = match nd {
                1 => cap,
                2 => 24.min(cap),
                _ => 8,
            };
            (Just(ty), shape_strategy(nd, max_axis, cap, false), 0..nd, layout_strategy(nd), layout_strategy(nd))
        })
        .prop_flat_map(|(ty, shape, axis, layout_d, layout_w)| {
            let total: usize = shape.iter().product();
            let na = shape[axis];
            let (d, w, wa) = match ty {
                NTy::F64 => (float_data(false, total), float_weights(false, total), float_weights(false, na)),
                NTy::F32 => (float_data(true, total), float_weights(true, total), float_weights(true, na)),
                _ => (int_data(ty, total, false), int_data(ty, total, true), int_data(ty, na, true)),
            };
            (
                Just((ty, shape, axis, layout_d, layout_w)),
                d,
                w,
                wa,
                proptest::collection::vec(any::<bool>(), 0..5),
                1usize..3,
                any::<bool>(),
                prop_oneof![Just(0.0f64), Just(1.0f64), Just(0.5f64), (0u32..=1024).prop_map(|k| k as f64 / 1024.0)],
                0u16..=8,
            )
        })
        .prop_map(|((ty, shape, axis, layout_d, layout_w), mut data, mut weights, mut w_axis, neg_mask, w_axis_step, w_axis_rev, ddof, order)| {
            // one case in eight: the first element of every lane is an outlier carrying zero weight
            if matches!(ty, NTy::F64 | NTy::F32) && order % 8 == 3 && shape[axis] >= 3 {
                let f32_ = ty == NTy::F32;
                let zero = if f32_ { f32_abs(0.0) } else { f64_abs(0.0) };
                for lane in lane_indexes(&shape, axis) {
                    let i = lane[0];
                    data[i] = if f32_ { f32_abs(abs_f32(data[i]) * 4096.0 + 3.0e4) } else { f64_abs(abs_f64(data[i]) * 1048576.0 + 1.0e9) };
                    weights[i] = zero;
                }
                w_axis[0] = zero;
            }
            // weights at the bottom of the exponent range: only ddof = 0 leaves a positive denominator
            let tiny_total = |w: &Vec<i128>| match ty {
                NTy::F64 => w.iter().map(|&b| abs_f64(b)).sum::<f64>() < 1e-300,
                NTy::F32 => w.iter().map(|&b| abs_f32(b) as f64).sum::<f64>() < 1e-37,
                _ => false,
            };
            let ddof = if tiny_total(&weights) || tiny_total(&w_axis) { 0.0 } else { ddof };
            SumCase {
            ty,
            shape,
            layout_d,
            layout_w,
            axis,
            data,
            weights,
            neg_mask,
            w_axis,
            w_axis_step,
            w_axis_rev,
            ddof: ddof.to_bits(),
            order,
        }})
}

/// Long inputs: thousands of elements (lengths around block sizes and powers of two), as one
/// long 1-D array or a long axis with a few lanes; the regimes a blocked / pairwise / chunked
/// summation only enters beyond a few thousand elements.
pub fn sumcase_long_strategy(float_only: bool, max_n: usize) -> impl Strategy<Value = SumCase> {
    let tys = if float_only { vec![NTy::F64, NTy::F64, NTy::F32] } else { vec![NTy::F64, NTy::F64, NTy::F64, NTy::F32, NTy::I32, NTy::I64, NTy::U32, NTy::Usize] };
    (proptest::sample::select(tys), crate::gen::long_len(600, max_n), 1usize..=3, 0usize..4)
        .prop_flat_map(move |(ty, lane, others, place)| {
            let (shape, axis) = match place {
                0 | 1 => (vec![lane], 0),
                2 => (vec![(lane / others).max(2), others], 0),
                _ => (vec![others, (lane / others).max(2)], 1),
            };
            let nd = shape.len();
            (Just(ty), Just(shape), Just(axis), layout_strategy(nd), layout_strategy(nd))
        })
        .prop_flat_map(|(ty, shape, axis, layout_d, layout_w)| {
            let total: usize = shape.iter().product();
            let na = shape[axis];
            let (d, w, wa) = match ty {
                NTy::F64 => (float_data(false, total), float_weights(false, total), float_weights(false, na)),
                NTy::F32 => (float_data(true, total), float_weights(true, total), float_weights(true, na)),
                _ => (int_data(ty, total.max(257), false).prop_map(move |mut v| { v.truncate(total); v }).boxed(), int_data(ty, total.max(257), true).prop_map(move |mut v| { v.truncate(total); v }).boxed(), int_data(ty, na.max(257), true).prop_map(move |mut v| { v.truncate(na); v }).boxed()),
            };
            (
                Just((ty, shape, axis, layout_d, layout_w)),
                d,
                w,
                wa,
                proptest::collection::vec(any::<bool>(), 0..5),
                1usize..3,
                any::<bool>(),
                prop_oneof![Just(0.0f64), Just(1.0f64), Just(0.5f64)],
                0u16..=6,
            )
        })
        .prop_map(|((ty, shape, axis, layout_d, layout_w), data, weights, w_axis, neg_mask, w_axis_step, w_axis_rev, ddof, order)| SumCase {
            ty,
            shape,
            layout_d,
            layout_w,
            axis,
            data,
            weights,
            neg_mask,
            w_axis,
            w_axis_step,
            w_axis_rev,
            ddof: ddof.to_bits(),
            order,
        })
}

pub fn run_c06(ctx: &Ctx) {
    let t = ctx.tier();
    ctx.run_proptest("sums", t.pick(24_000, 600_000), sumcase_strategy(false, t.pick(256, 1024)), &check_sums);
    ctx.run_proptest("sums-long", t.pick(400, 12_000), sumcase_long_strategy(false, t.pick(20_000, 33_000)), &check_sums);
}

pub fn run_c07(ctx: &Ctx) {
    let t = ctx.tier();
    let max_order = t.pick(8u16, 12u16);
    ctx.run_proptest(
        "var",
        t.pick(16_000, 400_000),
        sumcase_strategy(true, t.pick(200, 1024)).prop_map(move |mut c| {
            if max_order > 8 && c.data.len() % 3 == 0 {
                c.order += 4;
            }
            c
        }),
        &check_var,
    );
    ctx.run_proptest("var-long", t.pick(300, 9_000), sumcase_long_strategy(true, t.pick(13_000, 25_000)), &check_var);
}

pub fn replayers_c06() -> Vec<(&'static str, ReplayFn)> {
    vec![("sums", |v| replay_with::<SumCase>(v, &check_sums)), ("sums-long", |v| replay_with::<SumCase>(v, &check_sums))]
}
pub fn replayers_c07() -> Vec<(&'static str, ReplayFn)> {
    vec![("var", |v| replay_with::<SumCase>(v, &check_var)), ("var-long", |v| replay_with::<SumCase>(v, &check_var))]
}

#[allow(dead_code)]
fn _u(_: ArrayViewD<'_, f64>) {}

/// Budgets of skewness and kurtosis (first-order propagation, DESIGN.md appendix C);
/// None when the second moment does not resolve.
pub fn skew_kurt_tol<F: Fl>(data: &[F]) -> Option<(f64, f64)> {
    let n = data.len();
    let maxabs = data.iter().fold(0.0f64, |a, x| a.max(x.to64().abs()));
    let (mu2, a2, a1) = moment_reference(data, 2);
    let d2 = moment_tol::<F>(n, 2, a2, a1, maxabs);
    if !(mu2 > 0.0 && d2 <= mu2 / 1024.0) {
        return None;
    }
    let (mu3, a3, a2b) = moment_reference(data, 3);
    let d3 = moment_tol::<F>(n, 3, a3, a2b, maxabs);
    let (mu4, a4, a3b) = moment_reference(data, 4);
    let d4 = moment_tol::<F>(n, 4, a4, a3b, maxabs);
    let skew = mu3 / mu2.powf(1.5);
    let kurt = mu4 / (mu2 * mu2);
    Some((
        d3 / mu2.powf(1.5) + 1.5 * mu3.abs() * d2 / mu2.powf(2.5) + 8.0 * F::U * skew.abs() + 8.0 * F::U,
        d4 / (mu2 * mu2) + 2.0 * mu4.abs() * d2 / (mu2 * mu2 * mu2) + 8.0 * F::U * kurt.abs(),
    ))
}
