//! C05: min / max / argmin / argmax designate a true extremum or the right error.

use crate::core::*;
use crate::gen::*;
use crate::layout::*;
use crate::{ensure, fail};
use ndarray::{ArrayD, ArrayViewD, CowArray, Dimension, Ix0, Ix1, Ix2, Ix3, Ix4, IxDyn, ShapeBuilder};
use ndarray_stats::errors::MinMaxError;
use ndarray_stats::QuantileExt;
use proptest::prelude::*;
use serde::{Deserialize, Serialize};

#[derive(Clone, Copy, Debug, Serialize, Deserialize, Hash, PartialEq, Eq)]
pub enum MmTy {
    I32,
    U8,
    I64,
    F32,
    F64,
}

#[derive(Clone, Copy, Debug, Serialize, Deserialize, Hash, PartialEq, Eq)]
pub enum Own {
    /// view into the sentinel parent with the generated layout
    View,
    /// owned, standard (C) layout
    OwnedC,
    /// owned, column-major
    OwnedF,
    Shared,
    CowBorrowed,
    CowOwned,
}

#[derive(Clone, Debug, Serialize, Deserialize, Hash)]
pub struct MmCase {
    pub ty: MmTy,
    pub shape: Vec<usize>,
    pub layout: LayoutSpec,
    pub own: Own,
    pub static_dim: bool,
    /// abstract encoding (integer value / IEEE bits; floats may be NaN)
    pub data: Vec<i128>,
}

trait MmEl: Abs + PartialOrd + Copy {
    fn nan(&self) -> bool;
}
impl MmEl for i32 {
    fn nan(&self) -> bool {
        false
    }
}
impl MmEl for u8 {
    fn nan(&self) -> bool {
        false
    }
}
impl MmEl for i64 {
    fn nan(&self) -> bool {
        false
    }
}
impl MmEl for f32 {
    fn nan(&self) -> bool {
        self.is_nan()
    }
}
impl MmEl for f64 {
    fn nan(&self) -> bool {
        self.is_nan()
    }
}

type Four<T> = (Result<Vec<usize>, MinMaxError>, Result<Vec<usize>, MinMaxError>, Result<T, MinMaxError>, Result<T, MinMaxError>);

fn four_dyn<T: MmEl, S: ndarray::Data<Elem = T>>(a: &ndarray::ArrayBase<S, IxDyn>) -> Four<T> {
    (a.argmin().map(|p| p.slice().to_vec()), a.argmax().map(|p| p.slice().to_vec()), a.min().map(|x| *x), a.max().map(|x| *x))
}

fn four_static<T: MmEl>(v: ArrayViewD<'_, T>) -> Four<T> {
    match v.ndim() {
        0 => {
            let a = v.into_dimensionality::<Ix0>().unwrap();
            (a.argmin().map(|_| vec![]), a.argmax().map(|_| vec![]), a.min().map(|x| *x), a.max().map(|x| *x))
        }
        1 => {
            let a = v.into_dimensionality::<Ix1>().unwrap();
            (a.argmin().map(|p| vec![p]), a.argmax().map(|p| vec![p]), a.min().map(|x| *x), a.max().map(|x| *x))
        }
        2 => {
            let a = v.into_dimensionality::<Ix2>().unwrap();
            (a.argmin().map(|p| vec![p.0, p.1]), a.argmax().map(|p| vec![p.0, p.1]), a.min().map(|x| *x), a.max().map(|x| *x))
        }
        3 => {
            let a = v.into_dimensionality::<Ix3>().unwrap();
            (a.argmin().map(|p| vec![p.0, p.1, p.2]), a.argmax().map(|p| vec![p.0, p.1, p.2]), a.min().map(|x| *x), a.max().map(|x| *x))
        }
        4 => {
            let a = v.into_dimensionality::<Ix4>().unwrap();
            (a.argmin().map(|p| vec![p.0, p.1, p.2, p.3]), a.argmax().map(|p| vec![p.0, p.1, p.2, p.3]), a.min().map(|x| *x), a.max().map(|x| *x))
        }
        _ => four_dyn(&v),
    }
}

fn flat(shape: &[usize], idx: &[usize]) -> Option<usize> {
    if idx.len() != shape.len() {
        return None;
    }
    let mut f = 0;
    for (k, &i) in idx.iter().enumerate() {
        if i >= shape[k] {
            return None;
        }
        f = f * shape[k] + i;
    }
    Some(f)
}

fn check_mm_t<T: MmEl>(c: &MmCase) -> CheckResult {
    let total: usize = c.shape.iter().product();
    if c.data.len() != total || c.layout.ndim() != c.shape.len() {
        return Ok(Info::discarded());
    }
    let data: Vec<T> = c.data.iter().map(|&v| T::from_abs(v)).collect();
    let laid = Laid::new(&c.layout, &c.shape, &data);
    let r: Four<T> = match catch(|| match c.own {
        Own::View => {
            if c.static_dim {
                four_static(laid.view())
            } else {
                four_dyn(&laid.view())
            }
        }
        Own::OwnedC => {
            let a = ArrayD::from_shape_vec(IxDyn(&c.shape), data.clone()).unwrap();
            if c.static_dim {
                four_static(a.view())
            } else {
                four_dyn(&a)
            }
        }
        Own::OwnedF => {
            // column-major storage holding the same logical array
            let mut a = ArrayD::from_elem(IxDyn(&c.shape).f(), T::from_abs(0));
            a.assign(&laid.view());
            if c.static_dim {
                four_static(a.view())
            } else {
                four_dyn(&a)
            }
        }
        Own::Shared => {
            let a = laid.view().to_owned().into_shared();
            four_dyn(&a)
        }
        Own::CowBorrowed => {
            let a = CowArray::from(laid.view());
            four_dyn(&a)
        }
        Own::CowOwned => {
            let a: CowArray<'_, T, IxDyn> = CowArray::from(laid.view().to_owned());
            four_dyn(&a)
        }
    }) {
        Ok(r) => r,
        Err(p) => fail!("panic", "min/max/argmin/argmax panicked: {} (shape {:?})", p, c.shape),
    };
    let (amin, amax, vmin, vmax) = r;
    let has_nan = data.iter().any(|x| x.nan());
    if total == 0 {
        ensure!(
            amin == Err(MinMaxError::EmptyInput) && amax == Err(MinMaxError::EmptyInput) && vmin == Err(MinMaxError::EmptyInput) && vmax == Err(MinMaxError::EmptyInput),
            "error-kind",
            "empty array of shape {:?}: argmin {:?}, argmax {:?}, min {:?}, max {:?} (all must be EmptyInput)",
            c.shape,
            amin,
            amax,
            vmin,
            vmax
        );
        return Ok(Info::new(false).class("empty").class_if(c.shape.iter().any(|&s| s == 0) && c.shape.len() >= 2, "zero-length-axis"));
    }
    if has_nan {
        ensure!(
            amin == Err(MinMaxError::UndefinedOrder) && amax == Err(MinMaxError::UndefinedOrder) && vmin == Err(MinMaxError::UndefinedOrder) && vmax == Err(MinMaxError::UndefinedOrder),
            "error-kind",
            "array containing NaN (data {:?}, shape {:?}): argmin {:?}, argmax {:?}, min {:?}, max {:?} (all must be UndefinedOrder)",
            data,
            c.shape,
            amin,
            amax,
            vmin,
            vmax
        );
        return Ok(Info::new(total >= 2).class("has-NaN").class(c.layout.class()));
    }
    let (amin, amax, vmin, vmax) = match (amin, amax, vmin, vmax) {
        (Ok(a), Ok(b), Ok(c_), Ok(d)) => (a, b, c_, d),
        other => fail!("error-kind", "non-empty NaN-free array (shape {:?}) gave an error: {:?}", c.shape, other),
    };
    let imin = match flat(&c.shape, &amin) {
        Some(i) => i,
        None => fail!("wrong-value", "argmin {:?} is not an index of shape {:?}", amin, c.shape),
    };
    let imax = match flat(&c.shape, &amax) {
        Some(i) => i,
        None => fail!("wrong-value", "argmax {:?} is not an index of shape {:?}", amax, c.shape),
    };
    for (i, x) in data.iter().enumerate() {
        ensure!(data[imin] <= *x, "wrong-value", "argmin {:?} designates {:?}, but element {} is {:?} (data {:?}, shape {:?}, layout {:?})", amin, data[imin], i, x, data, c.shape, c.layout);
        ensure!(data[imax] >= *x, "wrong-value", "argmax {:?} designates {:?}, but element {} is {:?} (data {:?}, shape {:?}, layout {:?})", amax, data[imax], i, x, data, c.shape, c.layout);
        ensure!(vmin <= *x && vmax >= *x, "wrong-value", "min {:?} / max {:?} do not bound element {} = {:?}", vmin, vmax, i, x);
    }
    ensure!(vmin == data[imin], "wrong-value", "min() = {:?} differs from the element at argmin() = {:?}", vmin, data[imin]);
    ensure!(vmax == data[imax], "wrong-value", "max() = {:?} differs from the element at argmax() = {:?}", vmax, data[imax]);
    ensure!(data.iter().any(|x| x.bits() == vmin.bits()) && data.iter().any(|x| x.bits() == vmax.bits()), "wrong-value", "min/max returned a value that is not an element of the array");
    let tie = data.iter().filter(|x| **x == vmin).count() >= 2 || data.iter().filter(|x| **x == vmax).count() >= 2;
    let nonstd = !(c.layout.is_c() && matches!(c.own, Own::View | Own::OwnedC | Own::Shared | Own::CowBorrowed | Own::CowOwned)) || matches!(c.own, Own::OwnedF);
    Ok(Info::new(total >= 2 && (tie || nonstd))
        .class(c.layout.class())
        .class_if(tie, "tie-for-extremum")
        .class_if(c.shape.is_empty(), "0-D")
        .class_if(matches!(c.own, Own::Shared | Own::CowBorrowed | Own::CowOwned | Own::OwnedF), "ownership:non-plain")
        .class_if(c.static_dim, "static-dim")
        .class_if(total > 1024, "more-than-1024-elements"))
}

pub fn check_mm(c: &MmCase) -> CheckResult {
    match c.ty {
        MmTy::I32 => check_mm_t::<i32>(c),
        MmTy::U8 => check_mm_t::<u8>(c),
        MmTy::I64 => check_mm_t::<i64>(c),
        MmTy::F32 => check_mm_t::<f32>(c),
        MmTy::F64 => check_mm_t::<f64>(c),
    }
}

fn mm_values(ty: MmTy, total: usize) -> BoxedStrategy<Vec<i128>> {
    match ty {
        MmTy::I32 => int_values(Ty::I32, total..total + 1, true),
        MmTy::U8 => int_values(Ty::U8, total..total + 1, true),
        MmTy::I64 => int_values(Ty::I64, total..total + 1, true),
        MmTy::F64 => {
            let nan = prop_oneof![Just(f64::NAN), Just(-f64::NAN)];
            let elem_nan = prop_oneof![12 => f64_value(true), 1 => nan];
            let ties = prop_oneof![Just(0.0f64), Just(-0.0f64), Just(1.0f64), Just(f64::INFINITY), Just(f64::NEG_INFINITY), Just(-1.0f64)];
            prop_oneof![
                4 => proptest::collection::vec(f64_value(true).prop_map(f64_abs), total),
                2 => proptest::collection::vec(ties.prop_map(f64_abs), total),
                2 => proptest::collection::vec(elem_nan.prop_map(f64_abs), total),
                // exactly one NaN at first / middle / last position
                2 => (proptest::collection::vec(f64_value(true).prop_map(f64_abs), total), 0usize..3).prop_map(|(mut v, pos)| {
                    if !v.is_empty() {
                        let n = v.len();
                        let k = match pos { 0 => 0, 1 => n / 2, _ => n - 1 };
                        v[k] = f64_abs(f64::NAN);
                    }
                    v
                }),
            ]
            .boxed()
        }
        MmTy::F32 => {
            let ties = prop_oneof![Just(0.0f32), Just(-0.0f32), Just(1.0f32), Just(f32::INFINITY), Just(f32::NEG_INFINITY)];
            prop_oneof![
                4 => proptest::collection::vec(f32_value(true).prop_map(f32_abs), total),
                2 => proptest::collection::vec(ties.prop_map(f32_abs), total),
                2 => (proptest::collection::vec(f32_value(true).prop_map(f32_abs), total), 0usize..3).prop_map(|(mut v, pos)| {
                    if !v.is_empty() {
                        let n = v.len();
                        let k = match pos { 0 => 0, 1 => n / 2, _ => n - 1 };
                        v[k] = f32_abs(f32::NAN);
                    }
                    v
                }),
            ]
            .boxed()
        }
    }
}

fn mm_strategy() -> impl Strategy<Value = MmCase> {
    (proptest::sample::select(vec![MmTy::I32, MmTy::U8, MmTy::I64, MmTy::F32, MmTy::F64]), 0usize..=4, 0u8..10)
        .prop_flat_map(|(ty, nd, zroll)| {
            let max_axis = match nd {
                0 | 1 => 30,
                2 => 8,
                3 => 5,
                _ => 4,
            };
            let big: BoxedStrategy<Vec<usize>> = match nd {
                1 => (1000usize..3000).prop_map(|n| vec![n]).boxed(),
                2 => (2usize..7, 200usize..700).prop_map(|(a, b)| vec![a, b]).boxed(),
                3 => (2usize..4, 20usize..40, 20usize..40).prop_map(|(a, b, c)| vec![a, b, c]).boxed(),
                _ => shape_strategy(nd, max_axis, 200, false),
            };
            let shape = if zroll == 9 && nd >= 1 && nd <= 3 { big } else { shape_strategy(nd, max_axis, 200, zroll == 0) };
            (Just(ty), shape, layout_strategy(nd))
        })
        .prop_flat_map(|(ty, shape, layout)| {
            let total: usize = shape.iter().product();
            (
                Just((ty, shape, layout)),
                mm_values(ty, total),
                proptest::sample::select(vec![Own::View, Own::View, Own::View, Own::OwnedC, Own::OwnedF, Own::Shared, Own::CowBorrowed, Own::CowOwned]),
                any::<bool>(),
            )
        })
        .prop_map(|((ty, shape, layout), data, own, static_dim)| MmCase { ty, shape, layout, own, static_dim, data })
}

/// Thousands of elements (lengths around powers of two and block sizes) in 1-3 dimensions, with
/// the extremum or a single NaN planted at the first / last / middle / a random position.
fn mm_long_strategy(max_total: usize) -> impl Strategy<Value = MmCase> {
    (proptest::sample::select(vec![MmTy::I32, MmTy::U8, MmTy::I64, MmTy::F32, MmTy::F64, MmTy::F64]), crate::gen::long_len(1000, max_total), 0u8..10, 2usize..40, 2usize..6)
        .prop_flat_map(|(ty, n, dims, a, b)| {
            let shape = match dims {
                0..=5 => vec![n],
                6 => vec![a, (n / a).max(2)],
                7 => vec![(n / a).max(2), a],
                8 => vec![b, (n / (a * b)).max(2), a],
                _ => vec![(n / (a * b)).max(2) | 1, a, b],
            };
            let nd = shape.len();
            (Just((ty, shape)), layout_strategy(nd), any::<u64>(), 0u8..9, 0u8..4, proptest::sample::select(vec![Own::View, Own::View, Own::OwnedC, Own::OwnedF, Own::Shared, Own::CowBorrowed]), any::<bool>())
        })
        .prop_map(|((ty, shape), layout, seed, class, pos, own, static_dim)| {
            let total: usize = shape.iter().product();
            let mut next = crate::gen::splitmix(seed);
            let float = matches!(ty, MmTy::F32 | MmTy::F64);
            let enc = |k: i64| -> i128 {
                match ty {
                    MmTy::F64 => f64_abs(k as f64 * 0.5),
                    MmTy::F32 => f32_abs(k as f32 * 0.5),
                    MmTy::U8 => (k.rem_euclid(200) + 20) as i128,
                    _ => k as i128,
                }
            };
            let span: u64 = if class % 3 == 0 { 7 } else { 100_000 };
            let mut data: Vec<i128> = (0..total).map(|_| enc((next() % span) as i64 - (span as i64) / 2)).collect();
            let at = match pos {
                0 => 0,
                1 => total - 1,
                2 => total / 2,
                _ => (next() % total as u64) as usize,
            };
            match class {
                // a unique minimum / maximum at a chosen position
                0 | 1 | 2 => data[at] = if ty == MmTy::U8 { 1 } else { enc(-1_000_000) },
                3 | 4 => data[at] = if ty == MmTy::U8 { 250 } else { enc(1_000_000) },
                // a single NaN at a chosen position
                5 | 6 | 7 if float => data[at] = if ty == MmTy::F64 { f64_abs(f64::NAN) } else { f32_abs(f32::NAN) },
                _ => {}
            }
            MmCase { ty, shape, layout, own, static_dim, data }
        })
}

pub fn run_c05(ctx: &Ctx) {
    let t = ctx.tier();
    ctx.run_proptest("minmax", t.pick(80_000, 3_000_000), mm_strategy(), &check_mm);
    ctx.run_proptest("minmax-long", t.pick(800, 24_000), mm_long_strategy(t.pick(20_000, 70_000)), &check_mm);
}

pub fn replayers() -> Vec<(&'static str, ReplayFn)> {
    vec![("minmax", |v| replay_with::<MmCase>(v, &check_mm)), ("minmax-long", |v| replay_with::<MmCase>(v, &check_mm))]
}
