pub mod sel;
