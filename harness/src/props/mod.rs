pub mod bulk;
pub mod hist;
pub mod minmax;
pub mod nan;
pub mod order;
pub mod quant;
pub mod sel;
pub mod skip;
