pub mod nan;
pub mod sel;
