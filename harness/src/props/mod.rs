pub mod nan;
pub mod quant;
pub mod sel;
