pub mod bulk;
pub mod nan;
pub mod order;
pub mod quant;
pub mod sel;
pub mod skip;
