//! C04: NaN-stripped views are sound for every stride and element type.
//! (The checker is shared with C03: multiset of the input view and guard elements.)

use crate::core::*;
use crate::layout::*;
use crate::{ensure, fail};
use ndarray::{ArrayViewMut1, Axis};
use ndarray_stats::{MaybeNan, MaybeNanExt};
use noisy_float::types::{N32, N64};
use proptest::prelude::*;
use serde::{Deserialize, Serialize};

#[derive(Clone, Copy, Debug, Serialize, Deserialize, Hash, PartialEq, Eq)]
pub enum NanTy {
    F32,
    F64,
    OU8,
    OU16,
    OU32,
    OU64,
    OU128,
    OI8,
    OI16,
    OI32,
    OI64,
    OI128,
    ON32,
    ON64,
}

pub const NAN_TYPES: [NanTy; 14] = [
    NanTy::F32,
    NanTy::F64,
    NanTy::OU8,
    NanTy::OU16,
    NanTy::OU32,
    NanTy::OU64,
    NanTy::OU128,
    NanTy::OI8,
    NanTy::OI16,
    NanTy::OI32,
    NanTy::OI64,
    NanTy::OI128,
    NanTy::ON32,
    NanTy::ON64,
];

/// Element types implementing `MaybeNan`, with constructors for test data.
pub trait NanEl: MaybeNan + El {
    /// a non-missing value derived from `k` (injective for |k| < 100)
    fn make(k: i64) -> Self;
    /// a missing value; floats have several NaN payloads
    fn missing(variant: u8) -> Self;
    /// the harness's OWN notion of "missing" (never the library's `MaybeNan::is_nan`, which
    /// is code under test: with the trait in scope `x.is_missing()` on a float resolves to it)
    fn is_missing(&self) -> bool;
}

impl NanEl for f64 {
    fn make(k: i64) -> Self {
        match k {
            97 => f64::INFINITY,
            -97 => f64::NEG_INFINITY,
            96 => -0.0,
            _ => k as f64 * 0.5,
        }
    }
    fn is_missing(&self) -> bool {
        f64::to_bits(*self) & 0x7fff_ffff_ffff_ffff > 0x7ff0_0000_0000_0000
    }
    fn missing(variant: u8) -> Self {
        match variant % 3 {
            0 => f64::NAN,
            1 => -f64::NAN,
            _ => f64::from_bits(0x7ff8_0000_0000_1234),
        }
    }
}
impl NanEl for f32 {
    fn make(k: i64) -> Self {
        match k {
            97 => f32::INFINITY,
            -97 => f32::NEG_INFINITY,
            96 => -0.0,
            _ => k as f32 * 0.5,
        }
    }
    fn is_missing(&self) -> bool {
        f32::to_bits(*self) & 0x7fff_ffff > 0x7f80_0000
    }
    fn missing(variant: u8) -> Self {
        match variant % 3 {
            0 => f32::NAN,
            1 => -f32::NAN,
            _ => f32::from_bits(0x7fc0_1234),
        }
    }
}
macro_rules! nanel_opt_int {
    ($($t:ty),*) => {$(
        impl NanEl for Option<$t> {
            fn make(k: i64) -> Self { Some(k as $t) }
            fn missing(_variant: u8) -> Self { None }
            fn is_missing(&self) -> bool { matches!(self, None) }
        }
    )*};
}
nanel_opt_int!(u8, u16, u32, u64, u128, i8, i16, i32, i64, i128);
impl NanEl for Option<N64> {
    fn make(k: i64) -> Self {
        Some(N64::unchecked_new(k as f64 * 0.25))
    }
    fn missing(_variant: u8) -> Self {
        None
    }
    fn is_missing(&self) -> bool {
        matches!(self, None)
    }
}
impl NanEl for Option<N32> {
    fn make(k: i64) -> Self {
        Some(N32::unchecked_new(k as f32 * 0.25))
    }
    fn missing(_variant: u8) -> Self {
        None
    }
    fn is_missing(&self) -> bool {
        matches!(self, None)
    }
}

#[macro_export]
macro_rules! dispatch_nan {
    ($ty:expr, $f:ident ( $($args:expr),* )) => {
        match $ty {
            $crate::props::nan::NanTy::F32 => $f::<f32>($($args),*),
            $crate::props::nan::NanTy::F64 => $f::<f64>($($args),*),
            $crate::props::nan::NanTy::OU8 => $f::<Option<u8>>($($args),*),
            $crate::props::nan::NanTy::OU16 => $f::<Option<u16>>($($args),*),
            $crate::props::nan::NanTy::OU32 => $f::<Option<u32>>($($args),*),
            $crate::props::nan::NanTy::OU64 => $f::<Option<u64>>($($args),*),
            $crate::props::nan::NanTy::OU128 => $f::<Option<u128>>($($args),*),
            $crate::props::nan::NanTy::OI8 => $f::<Option<i8>>($($args),*),
            $crate::props::nan::NanTy::OI16 => $f::<Option<i16>>($($args),*),
            $crate::props::nan::NanTy::OI32 => $f::<Option<i32>>($($args),*),
            $crate::props::nan::NanTy::OI64 => $f::<Option<i64>>($($args),*),
            $crate::props::nan::NanTy::OI128 => $f::<Option<i128>>($($args),*),
            $crate::props::nan::NanTy::ON32 => $f::<Option<noisy_float::types::N32>>($($args),*),
            $crate::props::nan::NanTy::ON64 => $f::<Option<noisy_float::types::N64>>($($args),*),
        }
    };
}

// ---------------------------------------------------------------------------------------
// case

#[derive(Clone, Debug, Serialize, Deserialize, Hash)]
pub struct RemoveCase {
    pub ty: NanTy,
    /// true = missing
    pub mask: Vec<bool>,
    pub stride: isize,
    pub offset: usize,
    /// value of element i is make(vals[i]) (defaults to i+1 when empty)
    pub vals: Vec<i8>,
}

fn build_data<T: NanEl>(c: &RemoveCase) -> Vec<T> {
    c.mask
        .iter()
        .enumerate()
        .map(|(i, &m)| {
            if m {
                T::missing(i as u8)
            } else {
                let k = if c.vals.is_empty() { (i % 100) as i64 + 1 } else { c.vals[i % c.vals.len()] as i64 };
                T::make(k)
            }
        })
        .collect()
}

/// Runs `remove_nan_mut` on the view and returns, **from metadata only**, the buffer
/// positions the returned view designates (or an error if it designates anything else).
fn stripped_positions<T: NanEl>(buf: &mut [T], offset: usize, n: usize, stride: isize) -> Result<Vec<usize>, Failure> {
    let base = buf.as_ptr() as isize;
    let size = std::mem::size_of::<T>() as isize;
    let buf_len = buf.len();
    let mut allowed = vec![false; buf_len];
    for p in positions(offset, n, stride) {
        allowed[p] = true;
    }
    let mut visited = vec![false; buf_len];
    let (ptr, len, st) = {
        let v = view1(buf, offset, n, stride);
        let r: ArrayViewMut1<'_, T::NotNan> = T::remove_nan_mut(v);
        (r.as_ptr() as isize, r.len(), if r.len() > 1 { r.stride_of(Axis(0)) } else { 0 })
    };
    if std::mem::size_of::<T::NotNan>() != std::mem::size_of::<T>() {
        return Err(Failure::new("aliasing", "NotNan has a different size than the element type"));
    }
    let mut out = Vec::with_capacity(len);
    for i in 0..len as isize {
        let addr = ptr + i * st * size;
        let off = addr - base;
        if off < 0 || off % size != 0 || (off / size) as usize >= buf_len {
            return Err(Failure::new(
                "aliasing",
                format!(
                    "element {} of the returned view (len {}, stride {}) lies at byte offset {} relative to the buffer ({} elements of {} bytes): outside the input allocation",
                    i, len, st, off, buf_len, size
                ),
            ));
        }
        let p = (off / size) as usize;
        if !allowed[p] {
            return Err(Failure::new(
                "aliasing",
                format!(
                    "element {} of the returned view (len {}, stride {}) is buffer position {}, which is not an element of the input view (offset {}, len {}, stride {}; positions {:?})",
                    i, len, st, p, offset, n, stride, positions(offset, n, stride)
                ),
            ));
        }
        if visited[p] {
            return Err(Failure::new("aliasing", format!("the returned view visits buffer position {} twice", p)));
        }
        visited[p] = true;
        out.push(p);
    }
    Ok(out)
}

pub fn check_remove_t<T: NanEl>(c: &RemoveCase) -> CheckResult {
    let n = c.mask.len();
    let data: Vec<T> = build_data(c);
    let mut buf = make_buf(&data, c.offset, c.stride, 2);
    let pos = match catch(|| stripped_positions::<T>(&mut buf, c.offset, n, c.stride)) {
        Ok(r) => r?,
        Err(p) => fail!("panic", "remove_nan_mut panicked: {}", p),
    };
    let n_present = c.mask.iter().filter(|m| !**m).count();
    ensure!(
        pos.len() == n_present,
        "wrong-value",
        "remove_nan_mut returned {} elements, the input has {} non-missing ones (mask {:?}, stride {}, offset {})",
        pos.len(),
        n_present,
        c.mask,
        c.stride,
        c.offset
    );
    let got: Vec<T> = pos.iter().map(|&p| buf[p].clone()).collect();
    for (i, g) in got.iter().enumerate() {
        ensure!(
            !g.is_missing(),
            "wrong-value",
            "element {} of the stripped view is a missing value ({:?}); mask {:?}, stride {}, offset {}, returned buffer positions {:?}",
            i,
            g,
            c.mask,
            c.stride,
            c.offset,
            pos
        );
    }
    let want = multiset(data.iter().filter(|d| !d.is_missing()).cloned());
    let have = multiset(got.iter().cloned());
    ensure!(
        want == have,
        "wrong-value",
        "stripped view holds {:?}, the non-missing input elements are {:?} (mask {:?}, stride {}, offset {})",
        got,
        data.iter().filter(|d| !d.is_missing()).collect::<Vec<_>>(),
        c.mask,
        c.stride,
        c.offset
    );
    // C03: the input view still holds the same multiset (missing values included), guards intact
    let after: Vec<T> = positions(c.offset, n, c.stride).iter().map(|&p| buf[p].clone()).collect();
    ensure!(
        multiset(after.iter().cloned()) == multiset(data.iter().cloned()),
        "multiset",
        "remove_nan_mut changed the multiset of the lane: before {:?}, after {:?}",
        data,
        after
    );
    if let Err(e) = guards_intact(&buf, c.offset, n, c.stride) {
        fail!("guard", "{}", e);
    }
    // determinism: same input again -> same order
    let mut buf2 = make_buf(&data, c.offset, c.stride, 2);
    let pos2 = stripped_positions::<T>(&mut buf2, c.offset, n, c.stride)?;
    let got2: Vec<T> = pos2.iter().map(|&p| buf2[p].clone()).collect();
    ensure!(
        got.iter().map(|g| g.bits()).eq(got2.iter().map(|g| g.bits())),
        "determinism",
        "two runs on the same input gave different orders: {:?} vs {:?}",
        got,
        got2
    );
    // idempotence: stripping the stripped data changes neither order nor length
    let mut buf3 = make_buf(&got, 0, 1, 0);
    let pos3 = stripped_positions::<T>(&mut buf3, 0, got.len(), 1)?;
    let got3: Vec<T> = pos3.iter().map(|&p| buf3[p].clone()).collect();
    ensure!(
        got.iter().map(|g| g.bits()).eq(got3.iter().map(|g| g.bits())),
        "idempotence",
        "stripping the stripped data changed it: {:?} -> {:?}",
        got,
        got3
    );
    // typed references handed out by try_as_not_nan / fold_skipnan / from_not_nan_ref_opt
    for d in data.iter() {
        ensure!(MaybeNan::is_nan(d) == d.is_missing(), "wrong-value", "MaybeNan::is_nan({:?}) = {}, but the value {} missing", d, MaybeNan::is_nan(d), if d.is_missing() { "is" } else { "is not" });
        match d.try_as_not_nan() {
            Some(nn) => {
                ensure!(!d.is_missing(), "wrong-value", "try_as_not_nan returned Some for the missing value {:?}", d);
                let back = T::from_not_nan_ref_opt(Some(nn));
                ensure!(back.bits() == d.bits(), "wrong-value", "try_as_not_nan/from_not_nan_ref_opt round trip changed {:?} into {:?}", d, back);
                ensure!(std::ptr::eq(back as *const T, d as *const T), "aliasing", "try_as_not_nan returned a reference to a different location");
            }
            None => ensure!(d.is_missing(), "wrong-value", "try_as_not_nan returned None for the non-missing value {:?}", d),
        }
    }
    ensure!(T::from_not_nan_opt(None).is_missing(), "wrong-value", "from_not_nan_opt(None) is not a missing value");
    ensure!(T::from_not_nan_ref_opt(None).is_missing(), "wrong-value", "from_not_nan_ref_opt(None) is not a missing value");
    {
        let mut b = make_buf(&data, c.offset, c.stride, 0);
        let v = view1(&mut b, c.offset, n, c.stride);
        let mut seen: Vec<(u8, u128)> = vec![];
        let mut bad = false;
        v.fold_skipnan((), |_, nn| {
            let r = T::from_not_nan_ref_opt(Some(nn));
            if r.is_missing() {
                bad = true;
            }
            seen.push(r.bits());
        });
        ensure!(!bad, "wrong-value", "fold_skipnan handed out a reference to a missing value");
        seen.sort_unstable();
        ensure!(seen == want, "wrong-value", "fold_skipnan visited {:?}, expected the non-missing elements {:?}", seen, want);
    }
    let some = n_present > 0 && n_present < n;
    Ok(Info::new(some && (c.stride != 1 || c.offset != 0))
        .class_if(c.stride < 0, "negative-stride")
        .class_if(c.stride.abs() > 1, "stepped")
        .class_if(c.stride == 1, "unit-stride")
        .class_if(n_present == 0 && n > 0, "all-missing")
        .class_if(n_present == n, "none-missing")
        .class_if(n >= 512, "long(>=512)")
        .class_if(n >= 4096, "long(>=4096)")
        .class_if(n <= 1, "len<=1"))
}

pub fn check_remove(c: &RemoveCase) -> CheckResult {
    dispatch_nan!(c.ty, check_remove_t(c))
}

// ---------------------------------------------------------------------------------------
// engines

const STRIDE_OFFSETS: [(isize, usize); 18] = [
    (1, 0), (1, 1), (1, 2), (2, 0), (2, 1), (2, 2), (3, 0), (3, 1), (3, 2),
    (-1, 0), (-1, 1), (-1, 2), (-2, 0), (-2, 1), (-2, 2), (-3, 0), (-3, 1), (-3, 2),
];

pub fn enum_remove(ctx: &Ctx, max_len: usize) {
    let mut item = 0u64;
    let mut evals = 0u64;
    let mut nontriv = 0u64;
    let mut sampled = false;
    for len in 0..=max_len {
        for bits in 0u32..(1u32 << len) {
            item += 1;
            if !ctx.mine(item) {
                continue;
            }
            let mask: Vec<bool> = (0..len).map(|i| bits >> i & 1 == 1).collect();
            for &ty in NAN_TYPES.iter() {
                for &(stride, offset) in STRIDE_OFFSETS.iter() {
                    let c = RemoveCase { ty, mask: mask.clone(), stride, offset, vals: vec![] };
                    if ctx.cfg.journal {
                        ctx.journal("remove", &c);
                    }
                    match guarded(&check_remove, &c) {
                        Ok(info) => {
                            evals += 1;
                            if info.nontrivial {
                                nontriv += 1;
                                if !sampled && len == max_len && stride < 0 {
                                    sampled = true;
                                    ctx.sample("enumeration", "remove", &c);
                                }
                            }
                        }
                        Err(f) => {
                            ctx.violation("remove", &c, &f);
                            ctx.bulk("enumeration", evals, nontriv, &[]);
                            return;
                        }
                    }
                }
            }
        }
    }
    ctx.bulk("enumeration", evals, nontriv, &[("remove:enumerated-mask-x-type-x-stride-x-offset", evals)]);
    ctx.exhaustive(format!(
        "remove_nan_mut: all 2^L missing-masks for L <= {} x 14 MaybeNan impls x strides {{-3..-1,1..3}} x offsets {{0,1,2}}",
        max_len
    ));
}

pub fn remove_strategy(max_len: usize) -> impl Strategy<Value = RemoveCase> {
    let mask = prop_oneof![
        4 => proptest::collection::vec(any::<bool>(), 0..max_len),
        1 => proptest::collection::vec(proptest::bool::weighted(0.9), 0..max_len),
        1 => proptest::collection::vec(proptest::bool::weighted(0.1), 0..max_len),
        1 => (0..max_len).prop_map(|n| (0..n).map(|i| i == 0).collect::<Vec<bool>>()),
        1 => (0..max_len).prop_map(|n| (0..n).map(|i| i + 1 == n).collect::<Vec<bool>>()),
        1 => (0..max_len).prop_map(|n| (0..n).map(|i| i % 2 == 0).collect::<Vec<bool>>()),
    ];
    (
        proptest::sample::select(NAN_TYPES.to_vec()),
        mask,
        prop_oneof![Just(1isize), Just(2isize), Just(3isize), Just(5isize), Just(-1isize), Just(-2isize), Just(-3isize), Just(-7isize)],
        0usize..4,
        proptest::collection::vec(prop_oneof![6 => any::<i8>(), 1 => Just(97i8), 1 => Just(-97i8), 1 => Just(96i8)], 0..8),
    )
        .prop_map(|(ty, mask, stride, offset, vals)| RemoveCase { ty, mask, stride, offset, vals })
}

/// Long lanes: missing values confined to the head / tail, long runs of missing values next
/// to a present end, sparse and dense masks; lengths around block sizes.
pub fn remove_long_strategy(max_len: usize) -> impl Strategy<Value = RemoveCase> {
    (
        proptest::sample::select(NAN_TYPES.to_vec()),
        crate::gen::long_len(300, max_len),
        0u8..12,
        any::<u16>(),
        any::<u64>(),
        prop_oneof![Just(1isize), Just(1isize), Just(2isize), Just(3isize), Just(-1isize), Just(-1isize), Just(-2isize)],
        0usize..3,
        proptest::collection::vec(any::<i8>(), 0..8),
    )
        .prop_map(|(ty, n, class, k, seed, stride, offset, vals)| {
            let mut next = crate::gen::splitmix(seed);
            let k = k as usize;
            let mut mask = vec![false; n];
            match class {
                // missing values only among the last / first few elements
                0 => {
                    let t = 1 + k % 130;
                    for i in n - t.min(n)..n {
                        mask[i] = next() % 3 != 0 || i + 1 == n;
                    }
                }
                1 => {
                    let t = 1 + k % 130;
                    for i in 0..t.min(n) {
                        mask[i] = next() % 3 != 0 || i == 0;
                    }
                }
                2 => mask[n - 1] = true,
                3 => mask[0] = true,
                // a long run of missing values right before a present last element / after a present first one
                4 => {
                    let r = (500 + k % 700).min(n - 1);
                    for i in n - 1 - r..n - 1 {
                        mask[i] = true;
                    }
                }
                5 => {
                    let r = (500 + k % 700).min(n - 1);
                    for i in 1..=r {
                        mask[i] = true;
                    }
                }
                // all missing but one
                6 => {
                    mask = vec![true; n];
                    mask[if k % 3 == 0 { 0 } else if k % 3 == 1 { n - 1 } else { k % n }] = false;
                }
                7 => mask[k % n] = true,
                8 => {
                    for m in mask.iter_mut() {
                        *m = next() % 10 == 0;
                    }
                }
                9 => {
                    for m in mask.iter_mut() {
                        *m = next() % 10 != 0;
                    }
                }
                10 => {
                    for m in mask.iter_mut() {
                        *m = next() % 2 == 0;
                    }
                }
                // a missing tail of arbitrary length (padded lanes)
                _ => {
                    let t = 1 + (k * n >> 16);
                    for i in n - t.min(n)..n {
                        mask[i] = true;
                    }
                }
            }
            RemoveCase { ty, mask, stride, offset, vals }
        })
}

pub fn run_c04(ctx: &Ctx) {
    let t = ctx.tier();
    enum_remove(ctx, t.pick(13, 16));
    ctx.run_proptest("remove", t.pick(40_000, 1_000_000), remove_strategy(t.pick(60, 200)), &check_remove);
    ctx.run_proptest("lanes", t.pick(20_000, 500_000), crate::props::skip::lanes_strategy(), &crate::props::skip::check_lanes);
    ctx.run_proptest("remove-long", t.pick(1_500, 50_000), remove_long_strategy(t.pick(6_000, 10_000)), &check_remove);
}

pub fn replayers() -> Vec<(&'static str, ReplayFn)> {
    vec![
        ("remove", |v| replay_with::<RemoveCase>(v, &check_remove)),
        ("remove-long", |v| replay_with::<RemoveCase>(v, &check_remove)),
        ("lanes", |v| replay_with::<crate::props::skip::LanesCase>(v, &crate::props::skip::check_lanes)),
    ]
}
