//! C19: quantiles obey order laws independent of any oracle.

use crate::core::*;
use crate::exact::{ulp32, ulp64};
use crate::gen::*;
use crate::layout::*;
use crate::props::quant::*;
use crate::qoracle::*;
use crate::{dispatch_ord, ensure, fail};
use proptest::prelude::*;
use serde::{Deserialize, Serialize};

#[derive(Clone, Debug, Serialize, Deserialize, Hash)]
pub struct OrderCase {
    pub ty: Ty,
    /// the lane (abstract encoding)
    pub data: Vec<i128>,
    pub qs: Vec<QSpec>,
    /// 1-D layout of the lane
    pub layout: LayoutSpec,
    /// sort keys defining a permutation of the lane
    pub perm_keys: Vec<u16>,
    /// positive increments defining a strictly increasing relabelling of the distinct values
    pub relabel_inc: Vec<u8>,
    pub relabel_base: i16,
    pub use_bulk: bool,
    pub pivots: Vec<Pivots>,
}

fn lane_case(c: &OrderCase, data: Vec<i128>, qs: Vec<QSpec>, strat: Strat, pv: usize) -> QCase {
    QCase {
        ty: c.ty,
        shape: vec![data.len()],
        layout: c.layout.clone(),
        axis: 0,
        data,
        qs,
        strat,
        api: if c.use_bulk { Api::AxisBulk } else { Api::AxisSingle },
        static_dim: true,
        pivots: vec![c.pivots[pv % c.pivots.len()].clone()],
    }
}

/// All requested quantiles of one lane under one strategy.
fn quantiles_of<T: QEl>(c: &OrderCase, data: &[i128], qs: &[f64], strat: Strat, pv: usize) -> Result<Vec<Val>, Failure> {
    let specs: Vec<QSpec> = qs.iter().map(|q| QSpec::Raw(q.to_bits())).collect();
    let mut out = Vec::with_capacity(qs.len());
    if c.use_bulk {
        let qc = lane_case(c, data.to_vec(), specs, strat, pv);
        match run_call::<T>(&qc, qs, &qc.pivots[0]) {
            Err(p) => return Err(Failure::new("panic", format!("quantiles_axis_mut panicked: {} ({:?}, q {:?})", p, strat, qs))),
            Ok(Err(e)) => return Err(Failure::new("error-kind", format!("quantiles_axis_mut returned Err({:?})", e))),
            Ok(Ok(r)) => {
                for x in r.result.iter() {
                    out.push(Val::of(c.ty, x.to_abs()));
                }
            }
        }
    } else {
        for (j, &q) in qs.iter().enumerate() {
            let qc = lane_case(c, data.to_vec(), vec![specs[j]], strat, pv + j);
            match run_call::<T>(&qc, &[q], &qc.pivots[0]) {
                Err(p) => return Err(Failure::new("panic", format!("quantile_axis_mut panicked: {} ({:?}, q {:e})", p, strat, q))),
                Ok(Err(e)) => return Err(Failure::new("error-kind", format!("quantile_axis_mut returned Err({:?})", e))),
                Ok(Ok(r)) => out.push(Val::of(c.ty, r.result.iter().next().unwrap().to_abs())),
            }
        }
    }
    if out.len() != qs.len() {
        return Err(Failure::new("shape", format!("{} results for {} q", out.len(), qs.len())));
    }
    Ok(out)
}

fn le_slack(a: Val, b: Val, slack: f64) -> bool {
    match (a, b) {
        (Val::I(a), Val::I(b)) => a <= b,
        (Val::F(a), Val::F(b)) => a <= b || a - b <= slack,
        _ => false,
    }
}

pub fn check_order_t<T: QEl>(c: &OrderCase) -> CheckResult {
    let n = c.data.len();
    if n == 0 || c.pivots.is_empty() || c.qs.is_empty() {
        return Ok(Info::discarded());
    }
    // Linear on 64-bit integers is only quantified below 2^52: wide 64-bit lanes are checked
    // with the other four strategies
    let is64 = matches!(c.ty, Ty::I64 | Ty::U64 | Ty::Usize);
    let skip_linear = is64 && c.data.iter().any(|v| v.abs() >= (1i128 << 52));
    let strats: Vec<Strat> = STRATS.iter().cloned().filter(|s| !(skip_linear && *s == Strat::Linear)).collect();
    let mut qs: Vec<f64> = c.qs.iter().map(|q| q.resolve(n)).collect();
    qs.push(0.0);
    qs.push(1.0);
    qs.sort_by(|a, b| a.partial_cmp(b).unwrap());
    let mut sorted: Vec<Val> = c.data.iter().map(|&v| Val::of(c.ty, v)).collect();
    sort_vals(&mut sorted);
    if !strict() {
        for &strat in strats.iter().filter(|s| !s.selecting()) {
            for &q in &qs {
                if lane_hits_d5(c.ty, strat, &sorted, q) {
                    return Ok(Info::excluded());
                }
            }
        }
    }
    let maxabs = sorted.iter().fold(0.0f64, |m, v| m.max(v.f().abs()));
    let float_slack = if c.ty == Ty::N32 { 2.0 * ulp32(maxabs as f32) } else { 2.0 * ulp64(maxabs) };
    let lane_min = sorted[0];
    let lane_max = sorted[n - 1];
    let mut res: Vec<Vec<Val>> = vec![];
    for (si, &strat) in strats.iter().enumerate() {
        let r = quantiles_of::<T>(c, &c.data, &qs, strat, si)?;
        let slack = if strat.selecting() || !c.ty.is_float() { 0.0 } else { float_slack };
        // monotone in q
        for j in 1..qs.len() {
            ensure!(
                le_slack(r[j - 1], r[j], slack),
                "order",
                "{:?} is not non-decreasing in q: Q({:e}) = {:?} > Q({:e}) = {:?} (lane sorted {:?})",
                strat,
                qs[j - 1],
                r[j - 1],
                qs[j],
                r[j],
                sorted
            );
        }
        // ends
        ensure!(r[0].eqv(&lane_min), "order", "{:?}: Q(0) = {:?} is not the lane minimum {:?}", strat, r[0], lane_min);
        ensure!(r[qs.len() - 1].eqv(&lane_max), "order", "{:?}: Q(1) = {:?} is not the lane maximum {:?}", strat, r[qs.len() - 1], lane_max);
        for (j, v) in r.iter().enumerate() {
            ensure!(le_slack(lane_min, *v, slack) && le_slack(*v, lane_max, slack), "order", "{:?}: Q({:e}) = {:?} lies outside [min, max] = [{:?}, {:?}]", strat, qs[j], v, lane_min, lane_max);
        }
        res.push(r);
    }
    // Lower <= {Nearest, Midpoint, Linear} <= Higher; all equal when (N-1)q is integral in f64
    for j in 0..qs.len() {
        let (lo, hi) = (res[0][j], res[1][j]);
        for (si, &strat) in strats.iter().enumerate().skip(2) {
            let slack = if strat.selecting() || !c.ty.is_float() { 0.0 } else { float_slack };
            ensure!(
                le_slack(lo, res[si][j], slack) && le_slack(res[si][j], hi, slack),
                "order",
                "at q={:e}: Lower = {:?}, {:?} = {:?}, Higher = {:?} violates Lower <= {:?} <= Higher (lane sorted {:?})",
                qs[j],
                lo,
                strat,
                res[si][j],
                hi,
                strat,
                sorted
            );
        }
        // "(N-1)q integral": required only when the IEEE product and the exact rational product
        // agree on it (C01 accepts either reading of the documented index)
        let p = qs[j] * (n - 1) as f64;
        if p == p.floor() && !boundary_ambiguous(qs[j], n) {
            for si in 1..strats.len() {
                ensure!(
                    res[si][j].eqv(&lo),
                    "order",
                    "(N-1)q = {} is integral (q={:e}, N={}) but {:?} = {:?} differs from Lower = {:?}",
                    p,
                    qs[j],
                    n,
                    strats[si],
                    res[si][j],
                    lo
                );
            }
        }
    }
    // permutation invariance
    let mut order: Vec<usize> = (0..n).collect();
    order.sort_by_key(|&i| (c.perm_keys.get(i).cloned().unwrap_or(0), i));
    let nonid = order.iter().enumerate().any(|(k, &i)| k != i);
    let permuted: Vec<i128> = order.iter().map(|&i| c.data[i]).collect();
    for (si, &strat) in strats.iter().enumerate() {
        let r = quantiles_of::<T>(c, &permuted, &qs, strat, si + 7)?;
        for j in 0..qs.len() {
            ensure!(
                r[j].eqv(&res[si][j]),
                "order",
                "{:?} at q={:e}: {:?} on the lane {:?} but {:?} on its permutation {:?}",
                strat,
                qs[j],
                res[si][j],
                c.data.iter().map(|&v| Val::of(c.ty, v)).collect::<Vec<_>>(),
                r[j],
                permuted.iter().map(|&v| Val::of(c.ty, v)).collect::<Vec<_>>()
            );
        }
    }
    // strictly increasing relabelling (selecting strategies)
    let mut distinct = sorted.clone();
    distinct.dedup_by(|a, b| a.eqv(b));
    let mut relabelled = false;
    if !c.relabel_inc.is_empty() {
        // w_0 = base, w_{i+1} = w_i + inc_i (inc >= 1)
        let mut w: Vec<i128> = Vec::with_capacity(distinct.len());
        let mut cur = c.relabel_base as i128;
        for i in 0..distinct.len() {
            w.push(cur);
            cur += c.relabel_inc[i % c.relabel_inc.len()].max(1) as i128;
        }
        let fits = if c.ty.is_float() {
            true
        } else {
            let (lo, hi) = c.ty.int_range();
            w.iter().all(|&x| x >= lo && x <= hi)
        };
        if fits {
            relabelled = true;
            let enc = |x: i128| -> i128 {
                match c.ty {
                    Ty::N64 => f64_abs(x as f64 * 0.5),
                    Ty::N32 => f32_abs(x as f32 * 0.5),
                    _ => x,
                }
            };
            let map = |v: Val| -> i128 {
                let k = distinct.iter().position(|d| d.eqv(&v)).unwrap();
                enc(w[k])
            };
            let mapped: Vec<i128> = c.data.iter().map(|&v| map(Val::of(c.ty, v))).collect();
            for (si, &strat) in strats.iter().enumerate().take(3) {
                let r = quantiles_of::<T>(c, &mapped, &qs, strat, si + 13)?;
                for j in 0..qs.len() {
                    let want = Val::of(c.ty, map(res[si][j]));
                    ensure!(
                        r[j].eqv(&want),
                        "order",
                        "{:?} at q={:e} does not commute with a strictly increasing relabelling: Q(lane) = {:?} maps to {:?}, but Q(relabelled lane) = {:?}",
                        strat,
                        qs[j],
                        res[si][j],
                        want,
                        r[j]
                    );
                }
            }
        }
    }
    let straddle = qs.windows(2).any(|w| {
        let a = &readings(w[0], n)[0];
        let b = &readings(w[1], n)[0];
        w[0] != w[1] && (a.lo != b.lo || a.hi != b.hi || a.lo == a.hi || b.lo == b.hi)
    });
    Ok(Info::new(distinct.len() >= 3 && (straddle || nonid || relabelled))
        .class(c.ty.class())
        .class_if(nonid, "permuted")
        .class_if(relabelled, "relabelled")
        .class_if(c.use_bulk, "via-bulk-api")
        .class_if(skip_linear, "wide-64-bit-lane(without-Linear)")
        .class_if(straddle, "q-pair-straddles-index-boundary"))
}

pub fn check_order(c: &OrderCase) -> CheckResult {
    dispatch_ord!(c.ty, check_order_t(c))
}

fn order_strategy(max_lane: usize, with_n32: bool) -> impl Strategy<Value = OrderCase> {
    order_strategy_with((1usize..max_lane).boxed(), with_n32, 14, false)
}

/// `qmax`: request lists of 1..qmax quantiles; `arrange`: half of the lanes are put in decreasing
/// order or get their maximum moved to the front.
fn order_strategy_with(len: BoxedStrategy<usize>, with_n32: bool, qmax: usize, arrange: bool) -> impl Strategy<Value = OrderCase> {
    (ty_strategy(with_n32), len)
        .prop_flat_map(move |(ty, n)| {
            (
                Just(ty),
                ord_values(ty, n..n + 1, true),
                proptest::collection::vec(qspec_strategy(), if qmax > 14 { 64..qmax } else { 1..qmax }),
                layout_strategy(1),
                proptest::collection::vec(any::<u16>(), n),
                proptest::collection::vec(1u8..40, 0..6),
                -100i16..100,
                any::<bool>(),
                proptest::collection::vec(pivots_strategy(), 1..4),
            )
        })
        .prop_map(move |(ty, mut data, qs, layout, perm_keys, relabel_inc, relabel_base, use_bulk, pivots)| {
            let use_bulk = use_bulk || qmax > 14;
            if arrange && data.len() >= 2 {
                let key = |v: i128| Val::of(ty, v);
                match perm_keys.last().map(|k| k % 4).unwrap_or(3) {
                    0 => data.sort_by(|a, b| key(*b).cmp(&key(*a))),
                    1 => {
                        let k = (0..data.len()).max_by(|&a, &b| key(data[a]).cmp(&key(data[b]))).unwrap();
                        data.swap(0, k);
                    }
                    _ => {}
                }
            }
            if matches!(ty, Ty::I64 | Ty::U64 | Ty::Usize) && perm_keys.first().map(|k| k % 2 == 0).unwrap_or(true) {
                // Linear on 64-bit integers is only quantified below 2^52 (the other half of the
                // cases keeps the wide values and drops Linear)
                for v in data.iter_mut() {
                    *v %= 1i128 << 52;
                }
            }
            let relabel_base = if matches!(ty, Ty::U8 | Ty::U16 | Ty::U32 | Ty::U64 | Ty::Usize) { relabel_base.abs() } else { relabel_base };
            OrderCase { ty, data, qs, layout, perm_keys, relabel_inc, relabel_base, use_bulk, pivots }
        })
}

/// All permutations of small lanes (with and without ties) x boundary q set x 5 strategies.
fn enum_perms(ctx: &Ctx, max_n: usize) {
    fn heap(k: usize, a: &mut Vec<i128>, f: &mut dyn FnMut(&[i128]) -> bool) -> bool {
        if k <= 1 {
            return f(a);
        }
        for i in 0..k {
            if !heap(k - 1, a, f) {
                return false;
            }
            if k % 2 == 0 {
                a.swap(i, k - 1);
            } else {
                a.swap(0, k - 1);
            }
        }
        true
    }
    let mut item = 0u64;
    let mut evals = 0u64;
    let mut nontriv = 0u64;
    let mut sampled = false;
    for n in 1..=max_n {
        // two base lanes: all distinct, and with ties
        let bases: Vec<Vec<i128>> = vec![(0..n as i128).map(|x| x * 3 - 4).collect(), (0..n as i128).map(|x| (x / 2) * 5).collect()];
        for base in bases {
            let mut a = base.clone();
            let ok = heap(n, &mut a, &mut |p: &[i128]| {
                item += 1;
                if !ctx.mine(item) {
                    return true;
                }
                let mut qs = vec![QSpec::Tiny, QSpec::AlmostOne];
                for k in 0..n {
                    let sel = (((k as u32) << 16) / n as u32 + 1).min(65535) as u16;
                    qs.push(QSpec::Grid { sel, nudge: 0 });
                    qs.push(QSpec::Grid { sel, nudge: 1 });
                    qs.push(QSpec::Half { sel, nudge: 0 });
                    qs.push(QSpec::Half { sel, nudge: -1 });
                }
                let c = OrderCase {
                    ty: Ty::I32,
                    data: p.to_vec(),
                    qs,
                    layout: LayoutSpec::c_order(1),
                    perm_keys: (0..n as u16).rev().collect(),
                    relabel_inc: vec![1, 7, 2],
                    relabel_base: -3,
                    use_bulk: item % 2 == 0,
                    pivots: vec![Pivots::Script(PivotScript { prefix: vec![], tail: Tail::Hash(item) })],
                };
                match guarded(&check_order, &c) {
                    Ok(info) => {
                        evals += 1;
                        if info.nontrivial {
                            nontriv += 1;
                            if !sampled && n == max_n {
                                sampled = true;
                                ctx.sample("enumeration", "order", &c);
                            }
                        }
                        true
                    }
                    Err(f) => {
                        ctx.violation("order", &c, &f);
                        false
                    }
                }
            });
            if !ok {
                ctx.bulk("enumeration", evals, nontriv, &[]);
                return;
            }
        }
    }
    ctx.bulk("enumeration", evals, nontriv, &[("order:enumerated-permutations", evals)]);
    ctx.exhaustive(format!("order laws: ALL permutations of a distinct-valued and a tied lane of length 1..={} (i32) x boundary q set x 5 strategies, each compared with its reversal-permutation and a relabelling", max_n));
}

pub fn run_c19(ctx: &Ctx) {
    let t = ctx.tier();
    enum_perms(ctx, t.pick(7, 8));
    ctx.run_proptest("order", t.pick(20_000, 700_000), order_strategy(t.pick(40, 200), t == Tier::Thorough), &check_order);
    // long lanes (lengths around powers of two and block sizes)
    ctx.run_proptest("order-long", t.pick(400, 12_000), order_strategy_with(crate::gen::long_len(129, t.pick(3_000, 5_000)), t == Tier::Thorough, 14, true), &check_order);
    // long request lists (64..200 quantiles in one bulk call) on lanes shorter / longer than the list
    ctx.run_proptest("order-many-q", t.pick(1_000, 30_000), order_strategy_with((2usize..300).boxed(), t == Tier::Thorough, 200, true), &check_order);
}

pub fn replayers() -> Vec<(&'static str, ReplayFn)> {
    vec![("order", |v| replay_with::<OrderCase>(v, &check_order)), ("order-long", |v| replay_with::<OrderCase>(v, &check_order)), ("order-many-q", |v| replay_with::<OrderCase>(v, &check_order))]
}

#[allow(dead_code)]
fn _f() {
    let _ = fail_marker();
}
fn fail_marker() -> Result<(), Failure> {
    if false {
        fail!("x", "y");
    }
    Ok(())
}
