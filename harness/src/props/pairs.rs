//! C08 (covariance / Pearson correlation), C09 (deviation measures), C10 (entropy family).

use crate::core::*;
use crate::exact::*;
use crate::gen::*;
use crate::layout::*;
use crate::numeric::*;
use crate::props::means::float_data;
use crate::{ensure, fail};
use ndarray::{Array2, ArrayBase, ArrayD, Data, Ix2, IxDyn};
use ndarray_stats::errors::MultiInputError;
use ndarray_stats::{CorrelationExt, DeviationExt, EntropyExt};
use num_bigint::BigInt;
use num_traits::{Signed, ToPrimitive, Zero};
use proptest::prelude::*;
use serde::{Deserialize, Serialize};

// ---------------------------------------------------------------------------------------
// C08

#[derive(Clone, Debug, Serialize, Deserialize, Hash)]
pub struct CovCase {
    pub f32_: bool,
    pub vars: usize,
    pub obs: usize,
    pub layout: LayoutSpec,
    /// IEEE bits, row-major (vars x obs)
    pub data: Vec<u64>,
    /// ddof as f64 bits
    pub ddof: u64,
    /// metamorphic rescaling of one variable: x -> a x + b
    pub scale_row: usize,
    pub scale_a: u64,
    pub scale_b: u64,
}

pub struct CovRef {
    /// exact sum_k dx_i dx_j as f64, per (i,j)  (dx = x - rowmean; computed as (n x - S)/n)
    pub c: Vec<Vec<f64>>,
    /// sum_k |dx_i||dx_j|
    cabs: Vec<Vec<f64>>,
    /// sum_k |dx_i|
    dabs: Vec<f64>,
    maxabs: Vec<f64>,
    range: Vec<f64>,
}

pub fn cov_reference<F: Fl>(rows: &[Vec<F>]) -> CovRef {
    let n = rows[0].len();
    let nn = Dy::from_i128(n as i128);
    let n2 = nn.mul(&nn);
    let ds: Vec<Vec<Dy>> = rows
        .iter()
        .map(|r| {
            let s = sum_dy(r.iter().map(|&x| dy(x)));
            r.iter().map(|&x| dy(x).mul(&nn).sub(&s)).collect()
        })
        .collect();
    let v = rows.len();
    let mut c = vec![vec![0.0; v]; v];
    let mut cabs = vec![vec![0.0; v]; v];
    for i in 0..v {
        for j in 0..v {
            let mut s = Dy::zero();
            let mut a = Dy::zero();
            for k in 0..n {
                let p = ds[i][k].mul(&ds[j][k]);
                a = a.add(&p.abs());
                s = s.add(&p);
            }
            c[i][j] = ratio(&s, &n2);
            cabs[i][j] = ratio(&a, &n2);
        }
    }
    let dabs = ds.iter().map(|d| ratio(&sum_dy(d.iter().map(|x| x.abs())), &nn)).collect();
    let maxabs = rows.iter().map(|r| r.iter().fold(0.0f64, |m, x| m.max(x.to64().abs()))).collect();
    let range = rows
        .iter()
        .map(|r| {
            let (a, b) = r.iter().fold((f64::INFINITY, f64::NEG_INFINITY), |(a, b), x| (a.min(x.to64()), b.max(x.to64())));
            b - a
        })
        .collect();
    CovRef { c, cabs, dabs, maxabs, range }
}

pub fn cov_tol<F: Fl>(r: &CovRef, i: usize, j: usize, n: usize, dof: f64) -> f64 {
    let g = gamma::<F>(n);
    let ei = g * r.maxabs[i];
    let ej = g * r.maxabs[j];
    (g * r.cabs[i][j] + n as f64 * ei * ej + g * (ei * r.dabs[j] + ej * r.dabs[i])) / dof + 2.0 * F::U * (r.c[i][j] / dof).abs() + F::TINY
}

fn run_cov<F: Fl>(rows: &[Vec<F>], layout: &LayoutSpec, ddof: F) -> Result<Array2<F>, Failure> {
    let v = rows.len();
    let n = rows[0].len();
    let flat: Vec<F> = rows.iter().flat_map(|r| r.iter().cloned()).collect();
    let laid = Laid::new(layout, &[v, n], &flat);
    let view = laid.view().into_dimensionality::<Ix2>().unwrap();
    match catch(|| view.cov(ddof)) {
        Ok(Ok(m)) => Ok(m),
        Ok(Err(e)) => Err(Failure::new("error-kind", format!("cov returned {:?} for a {}x{} matrix", e, v, n))),
        Err(p) => Err(Failure::new("panic", format!("cov panicked: {} (ddof {:e}, {} observations)", p, ddof, n))),
    }
}

fn run_corr<F: Fl>(rows: &[Vec<F>], layout: &LayoutSpec) -> Result<Array2<F>, Failure> {
    let v = rows.len();
    let n = rows[0].len();
    let flat: Vec<F> = rows.iter().flat_map(|r| r.iter().cloned()).collect();
    let laid = Laid::new(layout, &[v, n], &flat);
    let view = laid.view().into_dimensionality::<Ix2>().unwrap();
    match catch(|| view.pearson_correlation()) {
        Ok(Ok(m)) => Ok(m),
        Ok(Err(e)) => Err(Failure::new("error-kind", format!("pearson_correlation returned {:?} for a {}x{} matrix", e, v, n))),
        Err(p) => Err(Failure::new("panic", format!("pearson_correlation panicked: {}", p))),
    }
}

/// Budget for rho_ij (DESIGN.md appendix C), None when a variable does not resolve.
pub fn corr_tol<F: Fl>(r: &CovRef, i: usize, j: usize, n: usize) -> Option<(f64, f64)> {
    let g = gamma::<F>(n);
    // population variances (ddof = 0)
    let vi = r.c[i][i] / n as f64;
    let vj = r.c[j][j] / n as f64;
    if !(vi > 0.0 && vj > 0.0) {
        return None;
    }
    let tvi = g * r.range[i] * (r.range[i] + r.maxabs[i]);
    let tvj = g * r.range[j] * (r.range[j] + r.maxabs[j]);
    if tvi > vi / 1024.0 || tvj > vj / 1024.0 {
        return None;
    }
    let rho = (r.c[i][j] / n as f64) / (vi.sqrt() * vj.sqrt());
    let tc = cov_tol::<F>(r, i, j, n, n as f64);
    Some((rho, tc / (vi.sqrt() * vj.sqrt()) + rho.abs() * (tvi / (2.0 * vi) + tvj / (2.0 * vj)) + 8.0 * F::U))
}

pub fn check_cov_f<F: Fl>(c: &CovCase) -> CheckResult {
    let (v, n) = (c.vars, c.obs);
    if v == 0 || n < 2 || c.data.len() != v * n || c.layout.ndim() != 2 {
        return Ok(Info::discarded());
    }
    let rows: Vec<Vec<F>> = (0..v).map(|i| (0..n).map(|k| F::from_bits64(c.data[i * n + k])).collect()).collect();
    if rows.iter().flatten().any(|x| !x.is_finite()) {
        return Ok(Info::discarded());
    }
    let ddof = F::from64(f64::from_bits(c.ddof));
    let dof = n as f64 - ddof.to64();
    if !(ddof >= F::zero()) || dof < 0.2 {
        return Ok(Info::discarded());
    }
    let r = cov_reference(&rows);
    let m = run_cov(&rows, &c.layout, ddof)?;
    ensure!(m.shape() == [v, v], "shape", "cov of a {}x{} matrix has shape {:?}", v, n, m.shape());
    let mut resolving = false;
    for i in 0..v {
        for j in 0..v {
            let exact = r.c[i][j] / dof; // sum_k dx_i dx_j / (n - ddof)
            let tol = cov_tol::<F>(&r, i, j, n, dof);
            let got = m[[i, j]].to64();
            ensure!(
                close(got, exact, tol, F::U),
                "tolerance",
                "cov[{}][{}] = {:e}, exact {:e}, allowed error {:e} ({} variables x {} observations, ddof {:e}, layout {:?}); rows {:?}",
                i,
                j,
                got,
                exact,
                tol,
                v,
                n,
                ddof,
                c.layout,
                rows
            );
            let sym = m[[j, i]].to64();
            ensure!((got - sym).abs() <= 2.0 * tol + 8.0 * F::U * exact.abs(), "tolerance", "cov is not symmetric up to roundoff: [{}][{}] = {:e}, [{}][{}] = {:e}", i, j, got, j, i, sym);
            if i == j {
                ensure!(got >= -tol, "tolerance", "cov diagonal [{}][{}] = {:e} is negative beyond the error bound {:e}", i, i, got, tol);
            }
            if tol <= exact.abs() / 1024.0 {
                resolving = true;
            }
        }
    }
    // correlation (each variable non-constant)
    let mut corr_checked = false;
    if rows.iter().all(|row| row.iter().any(|x| *x != row[0])) {
        let tols: Vec<Vec<Option<(f64, f64)>>> = (0..v).map(|i| (0..v).map(|j| corr_tol::<F>(&r, i, j, n)).collect()).collect();
        if tols.iter().flatten().all(|t| t.is_some()) {
            corr_checked = true;
            let pc = run_corr(&rows, &c.layout)?;
            ensure!(pc.shape() == [v, v], "shape", "pearson_correlation of a {}x{} matrix has shape {:?}", v, n, pc.shape());
            for i in 0..v {
                for j in 0..v {
                    let (rho, tol) = tols[i][j].unwrap();
                    let got = pc[[i, j]].to64();
                    ensure!(close(got, rho, tol, F::U), "tolerance", "pearson[{}][{}] = {:e}, exact {:e}, allowed error {:e}; rows {:?}", i, j, got, rho, tol, rows);
                    ensure!(got.abs() <= 1.0 + tol, "tolerance", "pearson[{}][{}] = {:e} lies outside [-1,1] beyond the error bound", i, j, got);
                    if i == j {
                        ensure!((got - 1.0).abs() <= tol, "tolerance", "pearson diagonal [{}][{}] = {:e} is not 1 within {:e}", i, i, got, tol);
                    }
                }
            }
            // metamorphic: positive affine rescaling of one variable, negation of one variable
            let k = c.scale_row % v;
            let a = F::from64(f64::from_bits(c.scale_a));
            let b = F::from64(f64::from_bits(c.scale_b));
            if a > F::zero() && a.is_finite() && b.is_finite() {
                let mut rows2 = rows.clone();
                for x in rows2[k].iter_mut() {
                    *x = a * *x + b;
                }
                if rows2[k].iter().all(|x| x.is_finite()) && rows2[k].iter().any(|x| *x != rows2[k][0]) {
                    let r2 = cov_reference(&rows2);
                    let tols2: Vec<Vec<Option<(f64, f64)>>> = (0..v).map(|i| (0..v).map(|j| corr_tol::<F>(&r2, i, j, n)).collect()).collect();
                    if tols2.iter().flatten().all(|t| t.is_some()) {
                        let pc2 = run_corr(&rows2, &c.layout)?;
                        for i in 0..v {
                            for j in 0..v {
                                // rounding of a*x+b perturbs the data: compare each side with its own exact value
                                let (rho2, t2) = tols2[i][j].unwrap();
                                ensure!(close(pc2[[i, j]].to64(), rho2, t2, F::U), "tolerance", "after rescaling variable {} by x -> {:e} x + {:e}: pearson[{}][{}] = {:e}, exact {:e}, allowed {:e}", k, a, b, i, j, pc2[[i, j]], rho2, t2);
                                if a.to64().log2().fract() == 0.0 && b == F::zero() {
                                    // exact power-of-two scaling: the data change exactly, so rho must agree within both budgets
                                    let (_, t1) = tols[i][j].unwrap();
                                    ensure!((pc2[[i, j]].to64() - pc[[i, j]].to64()).abs() <= t1 + t2, "tolerance", "scaling variable {} by {:e} changed pearson[{}][{}] from {:e} to {:e}", k, a, i, j, pc[[i, j]], pc2[[i, j]]);
                                }
                            }
                        }
                    }
                }
            }
            let mut rows3 = rows.clone();
            for x in rows3[k].iter_mut() {
                *x = -*x;
            }
            let pc3 = run_corr(&rows3, &c.layout)?;
            for i in 0..v {
                for j in 0..v {
                    let sign = if (i == k) != (j == k) { -1.0 } else { 1.0 };
                    let (_, t1) = tols[i][j].unwrap();
                    ensure!((pc3[[i, j]].to64() - sign * pc[[i, j]].to64()).abs() <= 2.0 * t1, "tolerance", "negating variable {} turned pearson[{}][{}] = {:e} into {:e} (expected sign {})", k, i, j, pc[[i, j]], pc3[[i, j]], sign);
                }
            }
        }
    }
    Ok(Info::new(resolving && v >= 2 && n >= 3 && v != n)
        .class(if F::IS32 { "type:f32" } else { "type:f64" })
        .class(c.layout.class())
        .class_if(corr_checked, "correlation-checked")
        .class_if(resolving, "resolving")
        .class_if(f64::from_bits(c.ddof).fract() != 0.0, "ddof:fractional"))
}

pub fn check_cov(c: &CovCase) -> CheckResult {
    if c.f32_ {
        check_cov_f::<f32>(c)
    } else {
        check_cov_f::<f64>(c)
    }
}

fn cov_strategy() -> impl Strategy<Value = CovCase> {
    cov_strategy_with(8, (2usize..=64).boxed())
}

/// Thousands of observations of a few variables (f64; lengths around powers of two and block sizes).
fn cov_long_strategy(max_obs: usize) -> impl Strategy<Value = CovCase> {
    // (the f32 cases of this stream keep the short length: their budgets stop resolving beyond it)
    cov_strategy_with(4, crate::gen::long_len(300, max_obs))
}

fn cov_strategy_with(max_vars: usize, obs: BoxedStrategy<usize>) -> impl Strategy<Value = CovCase> {
    (prop_oneof![Just(false), any::<bool>()], 1usize..=max_vars, obs, layout_strategy(2))
        .prop_flat_map(|(f32_, vars, obs, layout)| {
            let obs = if f32_ { obs.min(32) } else { obs };
            // incl. fractional values between n-1 and n (still < n, so documented to work)
            let ddof = prop_oneof![3 => Just(0.0f64), 3 => Just(1.0f64), 2 => (1u32..4).prop_map(|k| k as f64 * 0.25), 2 => (0usize..obs - 1).prop_map(|k| k as f64 + 0.5), 1 => Just(obs as f64 - 0.5), 1 => Just(obs as f64 - 0.25)];
            (
                Just((f32_, vars, obs, layout)),
                proptest::collection::vec(float_data(f32_, obs), vars),
                // common power-of-two scale of the whole matrix (covariance scales with its square);
                // 7 = every variable gets its own scale in 2^-400..2^400
                prop_oneof![6 => Just(0i32), 1 => Just(300i32), 1 => Just(-300i32), 1 => Just(120i32), 1 => Just(-120i32), 2 => Just(7i32)],
                ddof,
                0usize..8,
                prop_oneof![Just(2.0f64), Just(0.25f64), Just(1024.0f64), 0.1f64..10.0],
                prop_oneof![Just(0.0f64), -10.0f64..10.0],
            )
        })
        .prop_map(|((f32_, vars, obs, layout), rows, scale, ddof, scale_row, a, b)| {
            let per_row: Vec<i32> = (0..vars).map(|i| if scale == 7 { ((crate::core::splitmix64(i as u64 * 77 + obs as u64) % 801) as i32) - 400 } else { scale }).collect();
            let data: Vec<u64> = rows
                .into_iter()
                .enumerate()
                .flat_map(|(i, r)| {
                    let sc = per_row[i];
                    r.into_iter().map(move |v| (v, sc)).collect::<Vec<_>>()
                })
                .map(|(v, scale)| {
                    if scale == 0 {
                        v as u64
                    } else if f32_ {
                        (f32::from_bits(v as u32) * 2f32.powi(scale / 10)).to_bits() as u64
                    } else {
                        (f64::from_bits(v as u64) * 2f64.powi(scale)).to_bits()
                    }
                })
                .collect();
            let (a, b) = if f32_ { ((a as f32) as f64, (b as f32) as f64) } else { (a, b) };
            CovCase { f32_, vars, obs, layout, data, ddof: ddof.to_bits(), scale_row, scale_a: a.to_bits(), scale_b: b.to_bits() }
        })
}

pub fn run_c08(ctx: &Ctx) {
    let t = ctx.tier();
    ctx.run_proptest("cov", t.pick(16_000, 400_000), cov_strategy(), &check_cov);
    ctx.run_proptest("cov-long", t.pick(400, 12_000), cov_long_strategy(t.pick(6_000, 12_000)), &check_cov);
}

// ---------------------------------------------------------------------------------------
// C09

#[derive(Clone, Copy, Debug, Serialize, Deserialize, Hash, PartialEq, Eq)]
pub enum DTy {
    I32,
    I64,
    F64,
    F32,
    Big,
}

#[derive(Clone, Copy, Debug, Serialize, Deserialize, Hash, PartialEq, Eq)]
pub enum Own3 {
    View,
    Owned,
    Shared,
}

#[derive(Clone, Debug, Serialize, Deserialize, Hash)]
pub struct DevCase {
    /// floats only: common power-of-two scale of both operands
    #[serde(default)]
    pub scale_pow: i32,
    /// floats only: 0 = use `maxv`; 1 = peak chosen next to the r.m.s. error (PSNR near 0 dB)
    #[serde(default)]
    pub maxv_mode: u8,
    pub ty: DTy,
    pub shape: Vec<usize>,
    pub layout_a: LayoutSpec,
    pub layout_b: LayoutSpec,
    pub own_a: Own3,
    pub own_b: Own3,
    /// abstract encoding (integer value / IEEE bits)
    pub a: Vec<i128>,
    pub b: Vec<i128>,
    pub maxv: i128,
}

impl El for BigInt {
    fn bits(&self) -> (u8, u128) {
        (1, self.to_i128().unwrap_or(0) as u128)
    }
    fn sentinel() -> Self {
        BigInt::from(-777_777_777i64)
    }
}

struct Dev<A> {
    count_eq: usize,
    count_neq: usize,
    sq: A,
    l1: A,
    linf: A,
    l2: f64,
    mae: f64,
    mse: f64,
    rmse: f64,
    psnr: f64,
}

fn dev_all<A, S1, S2>(a: &ArrayBase<S1, IxDyn>, b: &ArrayBase<S2, IxDyn>, maxv: A) -> Result<Dev<A>, MultiInputError>
where
    A: std::ops::AddAssign + Clone + Signed + ToPrimitive + PartialOrd,
    S1: Data<Elem = A>,
    S2: Data<Elem = A>,
{
    Ok(Dev {
        count_eq: a.count_eq(b)?,
        count_neq: a.count_neq(b)?,
        sq: a.sq_l2_dist(b)?,
        l1: a.l1_dist(b)?,
        linf: a.linf_dist(b)?,
        l2: a.l2_dist(b)?,
        mae: a.mean_abs_err(b)?,
        mse: a.mean_sq_err(b)?,
        rmse: a.root_mean_sq_err(b)?,
        psnr: a.peak_signal_to_noise_ratio(b, maxv)?,
    })
}

fn dev_owned<A>(la: &Laid<A>, lb: &Laid<A>, oa: Own3, ob: Own3, maxv: A) -> Result<Dev<A>, MultiInputError>
where
    A: std::ops::AddAssign + Clone + Signed + ToPrimitive + PartialOrd + El,
{
    let va = la.view();
    let vb = lb.view();
    match (oa, ob) {
        (Own3::View, Own3::View) => dev_all(&va, &vb, maxv),
        (Own3::View, Own3::Owned) => dev_all(&va, &vb.to_owned(), maxv),
        (Own3::View, Own3::Shared) => dev_all(&va, &vb.to_owned().into_shared(), maxv),
        (Own3::Owned, Own3::View) => dev_all(&va.to_owned(), &vb, maxv),
        (Own3::Owned, Own3::Owned) => dev_all(&va.to_owned(), &vb.to_owned(), maxv),
        (Own3::Owned, Own3::Shared) => dev_all(&va.to_owned(), &vb.to_owned().into_shared(), maxv),
        (Own3::Shared, Own3::View) => dev_all(&va.to_owned().into_shared(), &vb, maxv),
        (Own3::Shared, Own3::Owned) => dev_all(&va.to_owned().into_shared(), &vb.to_owned(), maxv),
        (Own3::Shared, Own3::Shared) => dev_all(&va.to_owned().into_shared(), &vb.to_owned().into_shared(), maxv),
    }
}

fn rel_close(got: f64, want: f64, rel: f64) -> bool {
    if got == want {
        return true;
    }
    if got.is_nan() || want.is_nan() {
        return false;
    }
    (got - want).abs() <= rel * want.abs() + f64::MIN_POSITIVE
}

/// The derived measures are documented functions of the routine's OWN base results:
/// checked at f64 accuracy whatever the element type.
fn relation_checks(n: usize, sq_own: f64, l1_own: f64, maxv: f64, d: (f64, f64, f64, f64, f64), what: &str) -> Result<(), Failure> {
    let (l2, mae, mse, rmse, psnr) = d;
    let u = 2f64.powi(-53);
    let nn = n as f64;
    let near = |got: f64, want: f64, ulps: f64| got == want || (got.is_nan() && want.is_nan()) || (got - want).abs() <= ulps * u * want.abs() + f64::MIN_POSITIVE;
    ensure!(near(l2, sq_own.sqrt(), 4.0), "wrong-value", "{}: l2_dist = {:e} is not sqrt(sq_l2_dist) = {:e} (sq_l2_dist returned {:e})", what, l2, sq_own.sqrt(), sq_own);
    ensure!(near(mae, l1_own / nn, 4.0), "wrong-value", "{}: mean_abs_err = {:e} is not l1_dist / n = {:e} (l1_dist returned {:e})", what, mae, l1_own / nn, l1_own);
    ensure!(near(mse, sq_own / nn, 4.0), "wrong-value", "{}: mean_sq_err = {:e} is not sq_l2_dist / n = {:e} (sq_l2_dist returned {:e})", what, mse, sq_own / nn, sq_own);
    ensure!(near(rmse, mse.sqrt(), 4.0), "wrong-value", "{}: root_mean_sq_err = {:e} is not sqrt(mean_sq_err) = {:e}", what, rmse, mse.sqrt());
    if mse > 0.0 && mse.is_finite() && maxv != 0.0 && (maxv * maxv).is_finite() && maxv * maxv > f64::MIN_POSITIVE {
        let ratio = maxv * maxv / mse;
        let want = 10.0 * ratio.log10();
        // one rounding of the ratio moves log10 by ~u/ln(10); log10 itself and the product err by a few ulp
        // (the property names a function, not an evaluation order: 20 log10|maxv| - 10 log10(mse) is the same
        // function and rounds each logarithm at its own magnitude, which the last term allows for)
        let tol = 10.0 * 4.0 * u / std::f64::consts::LN_10 + 8.0 * u * want.abs() + 4.0 * u * (20.0 * maxv.abs().log10().abs() + 10.0 * mse.log10().abs());
        ensure!((psnr - want).abs() <= tol, "tolerance", "{}: peak_signal_to_noise_ratio = {:e} is not 10 log10(maxv^2 / mean_sq_err) = {:e} (difference {:e}, allowed {:e}; maxv {:e}, mse {:e})", what, psnr, want, (psnr - want).abs(), tol, maxv, mse);
    }
    Ok(())
}

fn derived_checks(n: usize, sq: f64, l1: f64, rel_sq: f64, rel_l1: f64, maxv: f64, d: (f64, f64, f64, f64, f64), what: &str) -> Result<(), Failure> {
    let (l2, mae, mse, rmse, psnr) = d;
    let u = 2f64.powi(-53);
    let nn = n as f64;
    ensure!(rel_close(l2, sq.sqrt(), rel_sq / 2.0 + 4.0 * u), "tolerance", "{}: l2_dist = {:e}, sqrt of the exact squared distance {:e} is {:e}", what, l2, sq, sq.sqrt());
    ensure!(rel_close(mae, l1 / nn, rel_l1 + 4.0 * u), "tolerance", "{}: mean_abs_err = {:e}, exact l1/n = {:e}", what, mae, l1 / nn);
    ensure!(rel_close(mse, sq / nn, rel_sq + 4.0 * u), "tolerance", "{}: mean_sq_err = {:e}, exact sq_l2/n = {:e}", what, mse, sq / nn);
    ensure!(rel_close(rmse, (sq / nn).sqrt(), rel_sq / 2.0 + 4.0 * u), "tolerance", "{}: root_mean_sq_err = {:e}, exact sqrt(sq_l2/n) = {:e}", what, rmse, (sq / nn).sqrt());
    if sq > 0.0 && maxv != 0.0 && (maxv * maxv).is_finite() && maxv * maxv > f64::MIN_POSITIVE {
        let want = 10.0 * (maxv * maxv / (sq / nn)).log10();
        let tol = (10.0 / std::f64::consts::LN_10) * (rel_sq + 8.0 * u) + 8.0 * u * want.abs() + 4.0 * u * (20.0 * maxv.abs().log10().abs() + 10.0 * (sq / nn).log10().abs());
        ensure!((psnr - want).abs() <= tol, "tolerance", "{}: peak_signal_to_noise_ratio = {:e}, exact 10 log10(maxv^2/mse) = {:e} (allowed {:e})", what, psnr, want, tol);
    } else if sq == 0.0 && maxv != 0.0 {
        ensure!(psnr == f64::INFINITY, "wrong-value", "{}: identical arrays must give an infinite PSNR, got {:e}", what, psnr);
    }
    Ok(())
}

macro_rules! dev_int {
    ($c:expr, $t:ty, $conv:expr) => {{
        let c: &DevCase = $c;
        let conv = $conv;
        let a: Vec<$t> = c.a.iter().map(|&v| conv(v)).collect();
        let b: Vec<$t> = c.b.iter().map(|&v| conv(v)).collect();
        let la = Laid::new(&c.layout_a, &c.shape, &a);
        let lb = Laid::new(&c.layout_b, &c.shape, &b);
        let maxv: $t = conv(c.maxv);
        let d = match catch(|| dev_owned(&la, &lb, c.own_a, c.own_b, maxv.clone())) {
            Ok(Ok(d)) => d,
            Ok(Err(e)) => fail!("error-kind", "deviation routine returned {:?} for two non-empty arrays of equal shape {:?}", e, c.shape),
            Err(p) => fail!("panic", "deviation routine panicked: {}", p),
        };
        let n = a.len();
        let eq = c.a.iter().zip(&c.b).filter(|(x, y)| x == y).count();
        ensure!(d.count_eq == eq, "wrong-value", "count_eq = {}, {} positions hold equal elements (a {:?}, b {:?}, layouts {:?} / {:?})", d.count_eq, eq, c.a, c.b, c.layout_a, c.layout_b);
        ensure!(d.count_eq + d.count_neq == n, "wrong-value", "count_eq {} + count_neq {} != {} elements", d.count_eq, d.count_neq, n);
        let sq: i128 = c.a.iter().zip(&c.b).map(|(x, y)| (x - y) * (x - y)).sum();
        let l1: i128 = c.a.iter().zip(&c.b).map(|(x, y)| (x - y).abs()).sum();
        let linf: i128 = c.a.iter().zip(&c.b).map(|(x, y)| (x - y).abs()).max().unwrap_or(0);
        ensure!(d.sq == conv(sq), "wrong-value", "sq_l2_dist = {:?}, exact {} (a {:?}, b {:?}, layouts {:?} / {:?}, ownership {:?} / {:?})", d.sq, sq, c.a, c.b, c.layout_a, c.layout_b, c.own_a, c.own_b);
        ensure!(d.l1 == conv(l1), "wrong-value", "l1_dist = {:?}, exact {} (a {:?}, b {:?})", d.l1, l1, c.a, c.b);
        ensure!(d.linf == conv(linf), "wrong-value", "linf_dist = {:?}, exact {} (a {:?}, b {:?})", d.linf, linf, c.a, c.b);
        derived_checks(n, sq as f64, l1 as f64, 0.0, 0.0, c.maxv as f64, (d.l2, d.mae, d.mse, d.rmse, d.psnr), "integer")?;
        relation_checks(n, d.sq.to_f64().unwrap_or(f64::NAN), d.l1.to_f64().unwrap_or(f64::NAN), c.maxv as f64, (d.l2, d.mae, d.mse, d.rmse, d.psnr), "integer")?;
        // symmetry (exact) and d(a,a) = 0
        let r = dev_owned(&lb, &la, c.own_b, c.own_a, maxv.clone()).map_err(|e| Failure::new("error-kind", format!("{:?}", e)))?;
        ensure!(r.sq == d.sq && r.l1 == d.l1 && r.linf == d.linf && r.count_eq == d.count_eq, "wrong-value", "distances are not symmetric: d(a,b) = ({:?},{:?},{:?}), d(b,a) = ({:?},{:?},{:?})", d.sq, d.l1, d.linf, r.sq, r.l1, r.linf);
        let z = dev_owned(&la, &la, c.own_a, c.own_b, maxv).map_err(|e| Failure::new("error-kind", format!("{:?}", e)))?;
        ensure!(z.sq.is_zero() && z.l1.is_zero() && z.linf.is_zero() && z.count_neq == 0 && z.l2 == 0.0 && z.mse == 0.0, "wrong-value", "d(a,a) is not zero");
        c.a.iter().zip(&c.b).filter(|(x, y)| x != y).count()
    }};
}

fn check_dev_f<F: Fl + Signed>(c: &DevCase) -> CheckResult {
    let sc = F::from64(2f64.powi(if F::IS32 { c.scale_pow / 8 } else { c.scale_pow }));
    let a: Vec<F> = c.a.iter().map(|&v| F::from_bits64(v as u64) * sc).collect();
    let b: Vec<F> = c.b.iter().map(|&v| F::from_bits64(v as u64) * sc).collect();
    let n = a.len();
    let la = Laid::new(&c.layout_a, &c.shape, &a);
    let lb = Laid::new(&c.layout_b, &c.shape, &b);
    let maxv = if c.maxv_mode == 1 {
        // a peak right next to the r.m.s. error: PSNR near 0 dB at whatever scale the data have
        let ms: f64 = a.iter().zip(&b).map(|(x, y)| (x.to64() - y.to64()).powi(2)).sum::<f64>() / n as f64;
        let m = F::from64(ms.sqrt() * 1.0009765625);
        if m.is_finite() && m > F::zero() { m } else { F::from64(c.maxv as f64) }
    } else {
        F::from64(c.maxv as f64)
    };
    let maxv_f64 = maxv.to64();
    let d = match catch(|| dev_owned(&la, &lb, c.own_a, c.own_b, maxv)) {
        Ok(Ok(d)) => d,
        Ok(Err(e)) => fail!("error-kind", "deviation routine returned {:?} for two non-empty arrays of equal shape {:?}", e, c.shape),
        Err(p) => fail!("panic", "deviation routine panicked: {}", p),
    };
    let eq = a.iter().zip(&b).filter(|(x, y)| x == y).count();
    ensure!(d.count_eq == eq, "wrong-value", "count_eq = {}, {} positions hold equal elements (NaN != NaN); a {:?}, b {:?}", d.count_eq, eq, a, b);
    ensure!(d.count_eq + d.count_neq == n, "wrong-value", "count_eq {} + count_neq {} != {} elements", d.count_eq, d.count_neq, n);
    let differing = a.iter().zip(&b).filter(|(x, y)| x != y).count();
    if a.iter().chain(b.iter()).any(|x| !x.is_finite()) {
        // NaN / infinities only exercise the counting routines
        return Ok(Info::new(n >= 2 && differing >= 2 && c.layout_a != c.layout_b).class("has-NaN(count-only)"));
    }
    let diffs: Vec<Dy> = a.iter().zip(&b).map(|(x, y)| dy(*x).sub(&dy(*y))).collect();
    let sq = sum_dy(diffs.iter().map(|d| d.mul(d))).to_f64();
    let l1 = sum_dy(diffs.iter().map(|d| d.abs())).to_f64();
    let linf = diffs.iter().fold(Dy::zero(), |m, d| m.max(&d.abs())).to_f64();
    let g = gamma::<F>(n);
    ensure!(close(d.sq.to64(), sq, g * sq + F::TINY, F::U), "tolerance", "sq_l2_dist = {:e}, exact {:e}, allowed error {:e} (a {:?}, b {:?}, layouts {:?} / {:?})", d.sq, sq, g * sq, a, b, c.layout_a, c.layout_b);
    ensure!(close(d.l1.to64(), l1, g * l1 + F::TINY, F::U), "tolerance", "l1_dist = {:e}, exact {:e}, allowed error {:e} (a {:?}, b {:?})", d.l1, l1, g * l1, a, b);
    ensure!(close(d.linf.to64(), linf, 2.0 * F::U * linf + F::TINY, F::U), "tolerance", "linf_dist = {:e}, exact {:e} (a {:?}, b {:?})", d.linf, linf, a, b);
    // derived measures are functions of the routine's own base value converted to f64
    derived_checks(n, sq, l1, g + 8.0 * F::U, g + 8.0 * F::U, maxv_f64, (d.l2, d.mae, d.mse, d.rmse, d.psnr), "float")?;
    relation_checks(n, d.sq.to64(), d.l1.to64(), maxv_f64, (d.l2, d.mae, d.mse, d.rmse, d.psnr), "float")?;
    let r = dev_owned(&lb, &la, c.own_b, c.own_a, maxv).map_err(|e| Failure::new("error-kind", format!("{:?}", e)))?;
    ensure!((r.sq.to64() - d.sq.to64()).abs() <= 2.0 * g * sq + F::TINY && (r.l1.to64() - d.l1.to64()).abs() <= 2.0 * g * l1 + F::TINY && (r.linf.to64() - d.linf.to64()).abs() <= 4.0 * F::U * linf + F::TINY, "tolerance", "distances are not symmetric up to roundoff");
    let z = dev_owned(&la, &la, c.own_a, c.own_b, maxv).map_err(|e| Failure::new("error-kind", format!("{:?}", e)))?;
    ensure!(z.sq == F::zero() && z.l1 == F::zero() && z.linf == F::zero() && z.count_neq == 0, "wrong-value", "d(a,a) is not zero");
    Ok(Info::new(n >= 2 && differing >= 2 && (c.layout_a != c.layout_b || c.own_a != c.own_b)))
}

pub fn check_dev(c: &DevCase) -> CheckResult {
    let total: usize = c.shape.iter().product();
    if total == 0 || c.a.len() != total || c.b.len() != total || c.layout_a.ndim() != c.shape.len() || c.layout_b.ndim() != c.shape.len() {
        return Ok(Info::discarded());
    }
    let info = match c.ty {
        DTy::I32 => {
            let differing = dev_int!(c, i32, |v: i128| v as i32);
            Info::new(total >= 2 && differing >= 2 && (c.layout_a != c.layout_b || c.own_a != c.own_b))
        }
        DTy::I64 => {
            let differing = dev_int!(c, i64, |v: i128| v as i64);
            Info::new(total >= 2 && differing >= 2 && (c.layout_a != c.layout_b || c.own_a != c.own_b))
        }
        DTy::Big => {
            let differing = dev_int!(c, BigInt, |v: i128| BigInt::from(v));
            Info::new(total >= 2 && differing >= 2 && (c.layout_a != c.layout_b || c.own_a != c.own_b))
        }
        DTy::F64 => check_dev_f::<f64>(c)?,
        DTy::F32 => check_dev_f::<f32>(c)?,
    };
    Ok(info
        .class(match c.ty {
            DTy::I32 => "type:i32",
            DTy::I64 => "type:i64",
            DTy::Big => "type:BigInt",
            DTy::F64 => "type:f64",
            DTy::F32 => "type:f32",
        })
        .class(c.layout_a.class())
        .class_if(c.layout_a != c.layout_b, "operands:different-layouts")
        .class_if(c.own_a != c.own_b, "operands:different-ownership")
        .class_if(c.shape.len() >= 3, "ndim>=3")
        .class_if(c.a.len() > 4096, "elements>4096")
        .class_if(c.maxv < 0, "maxv:negative"))
}

fn dev_strategy() -> impl Strategy<Value = DevCase> {
    let shapes = (1usize..=4)
        .prop_flat_map(|nd| {
            let max_axis = match nd {
                1 => 40,
                2 => 8,
                3 => 5,
                _ => 3,
            };
            shape_strategy(nd, max_axis, 100, false)
        })
        .boxed();
    dev_strategy_shaped(shapes)
}

/// Thousands of elements in 1..4 dimensions: a long leading axis (lengths around powers of two
/// and block sizes) times small, mostly non-power-of-two trailing axes.
fn dev_long_strategy(max_total: usize) -> impl Strategy<Value = DevCase> {
    let shapes = (crate::gen::long_len(256, 8200), proptest::collection::vec(prop_oneof![Just(1usize), Just(2usize), Just(3usize), Just(4usize), Just(5usize), Just(7usize), Just(12usize), Just(16usize)], 0..3), any::<bool>())
        .prop_map(move |(outer, inner, outer_last)| {
            let mut shape = vec![outer];
            for k in inner {
                if shape.iter().product::<usize>() * k <= max_total {
                    shape.push(k);
                }
            }
            if outer_last {
                shape.reverse();
            }
            shape
        })
        .boxed();
    dev_strategy_shaped(shapes)
}

fn dev_strategy_shaped(shapes: BoxedStrategy<Vec<usize>>) -> impl Strategy<Value = DevCase> {
    (proptest::sample::select(vec![DTy::I32, DTy::I64, DTy::F64, DTy::F32, DTy::Big]), shapes)
        .prop_flat_map(|(ty, shape)| {
            let nd = shape.len();
            (Just(ty), Just(shape), layout_strategy(nd), layout_strategy(nd))
        })
        .prop_flat_map(|(ty, shape, la, lb)| {
            let n: usize = shape.iter().product();
            let vals = move |n: usize| -> BoxedStrategy<Vec<i128>> {
                match ty {
                    // |a-b| <= 2M, n (2M)^2 < 2^31 with n <= 100 (long inputs: smaller magnitudes, same bound)
                    DTy::I32 if n > 100 => proptest::collection::vec(-80i128..80, n).boxed(),
                    DTy::I64 if n > 100 => prop_oneof![proptest::collection::vec(-(1i128 << 20)..(1i128 << 20), n), proptest::collection::vec(-3i128..4, n)].boxed(),
                    DTy::I32 => proptest::collection::vec(-1000i128..1000, n).boxed(),
                    DTy::I64 => prop_oneof![proptest::collection::vec(-(1i128 << 26)..(1i128 << 26), n), proptest::collection::vec(-3i128..4, n)].boxed(),
                    DTy::Big => prop_oneof![proptest::collection::vec(-(1i128 << 24)..(1i128 << 24), n), proptest::collection::vec(-3i128..4, n)].boxed(),
                    DTy::F64 => prop_oneof![
                        6 => float_data(false, n),
                        1 => proptest::collection::vec(prop_oneof![8 => (-4i32..5).prop_map(|k| f64_abs(k as f64)), 1 => Just(f64_abs(f64::NAN))], n),
                    ]
                    .boxed(),
                    DTy::F32 => prop_oneof![
                        6 => float_data(true, n),
                        1 => proptest::collection::vec(prop_oneof![8 => (-4i32..5).prop_map(|k| f32_abs(k as f32)), 1 => Just(f32_abs(f32::NAN))], n),
                    ]
                    .boxed(),
                }
            };
            let own = || proptest::sample::select(vec![Own3::View, Own3::View, Own3::Owned, Own3::Shared]);
            let maxv = match ty {
                // the documented function is 10 log10(maxv^2 / mse): a negative peak (e.g. the minimum of a signed type) is in its domain
                DTy::I32 => prop_oneof![3 => 1i128..256, 2 => 40_000i128..65_536, 1 => Just(i32::MAX as i128), 1 => -256i128..0, 1 => Just(-32768i128)].boxed(),
                DTy::I64 | DTy::Big => prop_oneof![3 => 1i128..256, 2 => (1i128 << 31)..(1i128 << 33), 1 => Just(i64::MAX as i128 / 2), 1 => -256i128..0, 1 => Just(-(1i128 << 31))].boxed(),
                DTy::F64 => prop_oneof![3 => 1i128..256, 1 => Just(100_000_000_000_000_000_000i128), 1 => -256i128..0].boxed(),
                DTy::F32 => prop_oneof![3 => 1i128..256, 1 => Just(100_000_000_000_000_000_000i128), 1 => -256i128..0].boxed(),
            };
            (Just((ty, shape, la, lb)), vals(n), vals(n), proptest::collection::vec(any::<bool>(), n), own(), own(), maxv, prop_oneof![6 => Just(0i32), 1 => Just(300i32), 1 => Just(-300i32), 1 => Just(100i32), 1 => Just(-100i32)], prop_oneof![3 => Just(0u8), 1 => Just(1u8)])
        })
        .prop_map(|((ty, shape, layout_a, layout_b), a, mut b, same, own_a, own_b, maxv, scale_pow, maxv_mode)| {
            // make a share of the positions equal so count_eq is informative
            for (i, s) in same.iter().enumerate() {
                if *s && i % 3 == 0 {
                    b[i] = a[i];
                }
            }
            DevCase { scale_pow, maxv_mode, ty, shape, layout_a, layout_b, own_a, own_b, a, b, maxv }
        })
}

/// Two views of ONE buffer that start at the same element but have different strides
/// (a matrix and its transpose; a prefix and an every-second-element view).
#[derive(Clone, Debug, Serialize, Deserialize, Hash)]
pub struct DevAliasCase {
    pub f64_: bool,
    /// 0: square matrix vs its transpose, 1: 1-D prefix vs stepped view
    pub mode: u8,
    pub side: usize,
    pub vals: Vec<i8>,
}

fn alias_views<T: Clone>(c: &DevAliasCase, conv: impl Fn(i8) -> T) -> Option<(ArrayD<T>, Vec<i128>, Vec<i128>, bool)> {
    let k = c.side;
    if k == 0 {
        return None;
    }
    if c.mode % 2 == 0 {
        if c.vals.len() < k * k {
            return None;
        }
        let base = Array2::from_shape_vec((k, k), c.vals[..k * k].iter().map(|&v| conv(v)).collect()).ok()?;
        let a: Vec<i128> = c.vals[..k * k].iter().map(|&v| v as i128).collect();
        let mut b = vec![0i128; k * k];
        for i in 0..k {
            for j in 0..k {
                b[i * k + j] = a[j * k + i];
            }
        }
        Some((base.into_dyn(), a, b, true))
    } else {
        if c.vals.len() < 2 * k {
            return None;
        }
        let base = ndarray::Array1::from(c.vals[..2 * k].iter().map(|&v| conv(v)).collect::<Vec<T>>());
        let a: Vec<i128> = c.vals[..k].iter().map(|&v| v as i128).collect();
        let b: Vec<i128> = (0..k).map(|i| c.vals[2 * i] as i128).collect();
        Some((base.into_dyn(), a, b, false))
    }
}

pub fn check_dev_alias(c: &DevAliasCase) -> CheckResult {
    macro_rules! go {
        ($t:ty, $conv:expr, $maxv:expr) => {{
            let (base, a, b, square) = match alias_views::<$t>(c, $conv) {
                Some(x) => x,
                None => return Ok(Info::discarded()),
            };
            let k = c.side;
            let (va, vb) = if square {
                let m = base.view().into_dimensionality::<Ix2>().unwrap();
                (m.into_dyn(), base.view().into_dimensionality::<Ix2>().unwrap().reversed_axes().into_dyn())
            } else {
                let v = base.view().into_dimensionality::<ndarray::Ix1>().unwrap();
                (v.slice_move(ndarray::s![..k]).into_dyn(), base.view().into_dimensionality::<ndarray::Ix1>().unwrap().slice_move(ndarray::s![..;2]).into_dyn())
            };
            if va.as_ptr() != vb.as_ptr() {
                return Ok(Info::discarded());
            }
            let d = match catch(|| dev_all(&va, &vb, $maxv)) {
                Ok(Ok(d)) => d,
                Ok(Err(e)) => fail!("error-kind", "deviation routine returned {:?} for two aliasing views of equal shape", e),
                Err(p) => fail!("panic", "deviation routine panicked on aliasing views: {}", p),
            };
            let n = a.len();
            let eq = a.iter().zip(&b).filter(|(x, y)| x == y).count();
            let sq: i128 = a.iter().zip(&b).map(|(x, y)| (x - y) * (x - y)).sum();
            let l1: i128 = a.iter().zip(&b).map(|(x, y)| (x - y).abs()).sum();
            let linf: i128 = a.iter().zip(&b).map(|(x, y)| (x - y).abs()).max().unwrap_or(0);
            ensure!(d.count_eq == eq && d.count_eq + d.count_neq == n, "wrong-value", "aliasing views (same first element, different strides): count_eq = {}, expected {} of {}", d.count_eq, eq, n);
            ensure!(d.sq.to_f64() == Some(sq as f64), "wrong-value", "aliasing views: sq_l2_dist = {:?}, exact {} (a {:?}, b {:?})", d.sq, sq, a, b);
            ensure!(d.l1.to_f64() == Some(l1 as f64), "wrong-value", "aliasing views: l1_dist = {:?}, exact {} (a {:?}, b {:?})", d.l1, l1, a, b);
            ensure!(d.linf.to_f64() == Some(linf as f64), "wrong-value", "aliasing views: linf_dist = {:?}, exact {} (a {:?}, b {:?})", d.linf, linf, a, b);
            derived_checks(n, sq as f64, l1 as f64, 8.0 * 2f64.powi(-53), 8.0 * 2f64.powi(-53), 100.0, (d.l2, d.mae, d.mse, d.rmse, d.psnr), "aliasing views")?;
            a.iter().zip(&b).filter(|(x, y)| x != y).count()
        }};
    }
    let differing = if c.f64_ { go!(f64, |v: i8| v as f64, 100.0) } else { go!(i64, |v: i8| v as i64, 100) };
    Ok(Info::new(differing >= 2).class("operands:aliasing-views").class_if(c.mode % 2 == 0, "alias:matrix-vs-transpose").class_if(c.mode % 2 == 1, "alias:prefix-vs-stepped"))
}

fn dev_alias_strategy() -> impl Strategy<Value = DevAliasCase> {
    (any::<bool>(), 0u8..2, 1usize..7, proptest::collection::vec(-9i8..10, 49)).prop_map(|(f64_, mode, side, vals)| DevAliasCase { f64_, mode, side, vals })
}

pub fn run_c09(ctx: &Ctx) {
    let t = ctx.tier();
    ctx.run_proptest("dev", t.pick(40_000, 2_000_000), dev_strategy(), &check_dev);
    ctx.run_proptest("dev-alias", t.pick(8_000, 200_000), dev_alias_strategy(), &check_dev_alias);
    ctx.run_proptest("dev-long", t.pick(600, 20_000), dev_long_strategy(t.pick(20_000, 40_000)), &check_dev);
}

// ---------------------------------------------------------------------------------------
// C10

#[derive(Clone, Debug, Serialize, Deserialize, Hash)]
pub struct EntCase {
    pub f32_: bool,
    pub shape: Vec<usize>,
    pub layout_p: LayoutSpec,
    pub layout_q: LayoutSpec,
    /// IEEE bits
    pub p: Vec<u64>,
    pub q: Vec<u64>,
    pub normalised: bool,
}

fn xlnx(x: f64) -> f64 {
    if x == 0.0 {
        0.0
    } else {
        x * x.ln()
    }
}

pub fn check_ent_f<F: Fl>(c: &EntCase) -> CheckResult {
    let n: usize = c.shape.iter().product();
    if n == 0 || c.p.len() != n || c.q.len() != n {
        return Ok(Info::discarded());
    }
    let p: Vec<F> = c.p.iter().map(|&b| F::from_bits64(b)).collect();
    let q: Vec<F> = c.q.iter().map(|&b| F::from_bits64(b)).collect();
    let lp = Laid::new(&c.layout_p, &c.shape, &p);
    let lq = Laid::new(&c.layout_q, &c.shape, &q);
    let (vp, vq) = (lp.view(), lq.view());
    let (h, ce, kl, klpp) = match catch(|| (vp.entropy(), vp.cross_entropy(&vq), vp.kl_divergence(&vq), vp.kl_divergence(&vp))) {
        Ok((Ok(a), Ok(b), Ok(c_), Ok(d))) => (a.to64(), b.to64(), c_.to64(), d.to64()),
        Ok(other) => fail!("error-kind", "entropy family returned an error for non-empty arrays of equal shape: {:?}", other),
        Err(pn) => fail!("panic", "entropy family panicked: {}", pn),
    };
    let p64: Vec<f64> = p.iter().map(|x| x.to64()).collect();
    let q64: Vec<f64> = q.iter().map(|x| x.to64()).collect();
    let g = gamma::<F>(n);
    // NaN rules
    let h_nan = p64.iter().any(|x| x.is_nan());
    let pq_nan = p64.iter().zip(&q64).any(|(a, b)| a.is_nan() || (*a != 0.0 && b.is_nan()));
    ensure!(h.is_nan() == h_nan, "wrong-value", "entropy is {:e}; a NaN among the contributing terms: {} (p {:?})", h, h_nan, p64);
    ensure!(ce.is_nan() == pq_nan, "wrong-value", "cross_entropy is {:e}; a NaN among the contributing terms (p_i != 0): {} (p {:?}, q {:?})", ce, pq_nan, p64, q64);
    ensure!(kl.is_nan() == pq_nan, "wrong-value", "kl_divergence is {:e}; a NaN among the contributing terms (p_i != 0): {} (p {:?}, q {:?})", kl, pq_nan, p64, q64);
    let has_nan = p64.iter().chain(q64.iter()).any(|x| x.is_nan());
    let zero_p = p64.iter().any(|x| *x == 0.0);
    let zero_q = q64.iter().any(|x| *x == 0.0);
    let mut resolving = false;
    if !h_nan {
        let want = -comp_sum(p64.iter().map(|&x| xlnx(x)));
        let t = comp_sum(p64.iter().map(|&x| xlnx(x).abs()));
        let tol = 2.0 * g * t + F::TINY;
        ensure!(close(h, want, tol, F::U), "tolerance", "entropy = {:e}, -sum x ln x = {:e}, allowed error {:e} (p {:?})", h, want, tol, p64);
        resolving |= tol <= t / 1024.0;
        if c.normalised && !has_nan {
            let defect = (comp_sum(p64.iter().cloned()) - 1.0).abs();
            let pmin = p64.iter().filter(|x| **x > 0.0).fold(f64::INFINITY, |a, &x| a.min(x));
            let slack = tol + defect * (1.0 + pmin.ln().abs()) + 8.0 * F::U;
            ensure!(h <= (n as f64).ln() + slack, "tolerance", "entropy {:e} of a normalised {}-vector exceeds ln n = {:e} (slack {:e})", h, n, (n as f64).ln(), slack);
        }
    }
    if !pq_nan {
        // p > 0, q = 0  =>  +inf
        let inf_term = p64.iter().zip(&q64).any(|(a, b)| *a > 0.0 && *b == 0.0);
        let neg_inf_term = p64.iter().zip(&q64).any(|(a, b)| *a < 0.0 && *b == 0.0);
        if inf_term && !neg_inf_term {
            ensure!(ce == f64::INFINITY && kl == f64::INFINITY, "wrong-value", "p_i > 0 with q_i = 0 must give +inf: cross_entropy = {:e}, kl_divergence = {:e} (p {:?}, q {:?})", ce, kl, p64, q64);
        } else if !inf_term && !neg_inf_term && q64.iter().zip(&p64).all(|(b, a)| *a == 0.0 || *b > 0.0) {
            let ce_terms: Vec<f64> = p64.iter().zip(&q64).map(|(&a, &b)| if a == 0.0 { 0.0 } else { a * b.ln() }).collect();
            let kl_terms: Vec<f64> = p64.iter().zip(&q64).map(|(&a, &b)| if a == 0.0 { 0.0 } else { a * (b / a).ln() }).collect();
            if ce_terms.iter().chain(kl_terms.iter()).all(|t| t.is_finite()) {
                let ce_want = -comp_sum(ce_terms.iter().cloned());
                let kl_want = -comp_sum(kl_terms.iter().cloned());
                let ce_t = comp_sum(ce_terms.iter().map(|t| t.abs()));
                let kl_t = comp_sum(kl_terms.iter().map(|t| t.abs())) + comp_sum(p64.iter().map(|x| x.abs()));
                let ce_tol = 2.0 * g * ce_t + F::TINY;
                let kl_tol = 2.0 * g * kl_t + F::TINY;
                ensure!(close(ce, ce_want, ce_tol, F::U), "tolerance", "cross_entropy = {:e}, -sum p ln q = {:e}, allowed error {:e} (p {:?}, q {:?}, layouts {:?} / {:?})", ce, ce_want, ce_tol, p64, q64, c.layout_p, c.layout_q);
                ensure!(close(kl, kl_want, kl_tol, F::U), "tolerance", "kl_divergence = {:e}, -sum p ln(q/p) = {:e}, allowed error {:e} (p {:?}, q {:?})", kl, kl_want, kl_tol, p64, q64);
                resolving |= ce_tol <= ce_t / 1024.0;
                if !h_nan && p64.iter().all(|x| *x >= 0.0) {
                    // H(p,q) = H(p) + KL(p,q)
                    let t = comp_sum(p64.iter().map(|&x| xlnx(x).abs()));
                    let slack = ce_tol + kl_tol + 2.0 * g * t + F::TINY + 8.0 * F::U * (ce.abs() + h.abs() + kl.abs());
                    ensure!((ce - h - kl).abs() <= slack, "tolerance", "H(p,q) = {:e} differs from H(p) + KL(p,q) = {:e} + {:e} by more than {:e}", ce, h, kl, slack);
                    if c.normalised && !has_nan {
                        let dp = (comp_sum(p64.iter().cloned()) - 1.0).abs();
                        let dq = (comp_sum(q64.iter().cloned()) - 1.0).abs();
                        ensure!(kl >= -(kl_tol + dp + dq + 8.0 * F::U), "tolerance", "KL(p,q) = {:e} is negative beyond the error bound for normalised p, q", kl);
                    }
                }
            }
        }
    }
    if !h_nan {
        ensure!(klpp == 0.0, "wrong-value", "KL(p,p) = {:e}, must be zero (p {:?})", klpp, p64);
    } else {
        ensure!(klpp.is_nan(), "wrong-value", "KL(p,p) = {:e} although p contains a NaN (a contributing term is NaN); p {:?}", klpp, p64);
    }
    // p against a view of the same buffer with the same first element but other strides
    // (the reversed-axes view of a shape that reads the same backwards)
    let palin = c.shape.len() >= 2 && c.shape.iter().eq(c.shape.iter().rev());
    if palin && !has_nan {
        let owned = vp.to_owned();
        let pt = owned.view().reversed_axes();
        let q64t: Vec<f64> = pt.iter().map(|x| x.to64()).collect();
        if p64.iter().zip(&q64t).all(|(a, b)| *a == 0.0 || *b > 0.0) {
            let (ce2, kl2) = match catch(|| (owned.cross_entropy(&pt), owned.kl_divergence(&pt))) {
                Ok((Ok(a), Ok(b))) => (a.to64(), b.to64()),
                Ok(other) => fail!("error-kind", "entropy family returned an error for an array and its reversed-axes view: {:?}", other),
                Err(pn) => fail!("panic", "entropy family panicked on aliasing views: {}", pn),
            };
            let ce_terms: Vec<f64> = p64.iter().zip(&q64t).map(|(&a, &b)| if a == 0.0 { 0.0 } else { a * b.ln() }).collect();
            let kl_terms: Vec<f64> = p64.iter().zip(&q64t).map(|(&a, &b)| if a == 0.0 { 0.0 } else { a * (b / a).ln() }).collect();
            if ce_terms.iter().chain(kl_terms.iter()).all(|t| t.is_finite()) {
                let ce_t = comp_sum(ce_terms.iter().map(|t| t.abs()));
                let kl_t = comp_sum(kl_terms.iter().map(|t| t.abs())) + comp_sum(p64.iter().map(|x| x.abs()));
                ensure!(close(ce2, -comp_sum(ce_terms.iter().cloned()), 2.0 * g * ce_t + F::TINY, F::U), "tolerance", "cross_entropy(p, reversed-axes view of p) = {:e}, -sum p ln q = {:e} (p {:?})", ce2, -comp_sum(ce_terms.iter().cloned()), p64);
                ensure!(close(kl2, -comp_sum(kl_terms.iter().cloned()), 2.0 * g * kl_t + F::TINY, F::U), "tolerance", "kl_divergence(p, reversed-axes view of p) = {:e}, -sum p ln(q/p) = {:e} (p {:?})", kl2, -comp_sum(kl_terms.iter().cloned()), p64);
            }
        }
    }
    Ok(Info::new(n >= 3 && resolving && (zero_p || zero_q || c.layout_p != c.layout_q))
        .class(if F::IS32 { "type:f32" } else { "type:f64" })
        .class(c.layout_p.class())
        .class_if(zero_p, "zeros-in-p")
        .class_if(zero_q, "zeros-in-q")
        .class_if(has_nan, "has-NaN")
        .class_if(c.normalised, "normalised")
        .class_if(c.layout_p != c.layout_q, "operands:different-layouts"))
}

pub fn check_ent(c: &EntCase) -> CheckResult {
    if c.f32_ {
        check_ent_f::<f32>(c)
    } else {
        check_ent_f::<f64>(c)
    }
}

fn ent_strategy() -> impl Strategy<Value = EntCase> {
    ent_strategy_shaped((1usize..=3).prop_flat_map(|nd| shape_strategy(nd, if nd == 1 { 40 } else { 6 }, 64, false)).boxed())
}

/// Thousands of elements (1-D, or a long axis times a small one).
fn ent_long_strategy(max_n: usize) -> impl Strategy<Value = EntCase> {
    ent_strategy_shaped(
        (crate::gen::long_len(300, max_n), 1usize..=4, 0u8..3)
            .prop_map(|(n, k, place)| match place {
                0 => vec![n],
                1 => vec![(n / k).max(2), k],
                _ => vec![k, (n / k).max(2)],
            })
            .boxed(),
    )
}

fn ent_strategy_shaped(shapes: BoxedStrategy<Vec<usize>>) -> impl Strategy<Value = EntCase> {
    (any::<bool>(), shapes)
        .prop_flat_map(|(f32_, shape)| {
            let nd = shape.len();
            (Just(f32_), Just(shape), layout_strategy(nd), layout_strategy(nd), any::<bool>())
        })
        .prop_flat_map(|(f32_, shape, lp, lq, normalised)| {
            let n: usize = shape.iter().product();
            // non-negative finite values with zeros; occasionally a NaN
            let elem = prop_oneof![
                8 => (1u32..4096).prop_map(|k| k as f64 / 4096.0),
                2 => Just(0.0f64),
                2 => (-12i32..6, 1u32..64).prop_map(|(e, m)| m as f64 * 2f64.powi(e)),
                // tiny but non-zero (must still contribute: only an exact zero is skipped)
                1 => (60i32..100, 1u32..64).prop_map(|(e, m)| m as f64 * 2f64.powi(-e)),
            ];
            // whole-array classes: entries far below 1 (|ln p| in the hundreds), and q within 2^-20 of 1
            let far = proptest::collection::vec((300i32..900, 1u32..4096), n).prop_map(|v| v.into_iter().map(|(e, m)| (1.0 + m as f64 / 4096.0) * 2f64.powi(-e)).collect::<Vec<f64>>());
            let near_one = proptest::collection::vec(-64i32..65, n).prop_map(|v| v.into_iter().map(|k| 1.0 + k as f64 * 2f64.powi(-26)).collect::<Vec<f64>>());
            let with_nan = prop_oneof![40 => elem.clone(), 1 => Just(f64::NAN)];
            let pvec = prop_oneof![8 => proptest::collection::vec(with_nan.clone(), n), 1 => far.clone()];
            let qvec = prop_oneof![8 => proptest::collection::vec(with_nan, n), 1 => far, 2 => near_one];
            (Just((f32_, shape, lp, lq, normalised)), pvec, qvec, 0u8..10)
        })
        .prop_map(|((f32_, shape, layout_p, layout_q, normalised), mut p, mut q, nan_roll)| {
            // the far-from-1 and near-1 classes are not renormalised (that would destroy them)
            let special = p.iter().chain(q.iter()).any(|x| x.is_finite() && *x != 0.0 && (*x < 1e-30 || (*x - 1.0).abs() <= 1e-5));
            let normalised = normalised && !special;
            if nan_roll != 0 {
                // most cases: no NaN at all
                for x in p.iter_mut().chain(q.iter_mut()) {
                    if x.is_nan() {
                        *x = 0.25;
                    }
                }
            }
            if normalised {
                for v in [&mut p, &mut q] {
                    let s: f64 = v.iter().filter(|x| !x.is_nan()).sum();
                    if s > 0.0 {
                        for x in v.iter_mut() {
                            *x /= s;
                        }
                    }
                }
            }
            let enc = |x: f64| -> u64 {
                if f32_ {
                    let y = if x != 0.0 && x.abs() < 1e-30 { x.abs().powf(0.1) } else { x };
                    (y as f32).to_bits() as u64
                } else {
                    x.to_bits()
                }
            };
            EntCase { f32_, shape, layout_p, layout_q, p: p.into_iter().map(enc).collect(), q: q.into_iter().map(enc).collect(), normalised }
        })
}

pub fn run_c10(ctx: &Ctx) {
    let t = ctx.tier();
    ctx.run_proptest("ent", t.pick(40_000, 1_500_000), ent_strategy(), &check_ent);
    ctx.run_proptest("ent-long", t.pick(600, 20_000), ent_long_strategy(t.pick(40_000, 70_000)), &check_ent);
}

pub fn replayers_c08() -> Vec<(&'static str, ReplayFn)> {
    vec![("cov", |v| replay_with::<CovCase>(v, &check_cov)), ("cov-long", |v| replay_with::<CovCase>(v, &check_cov))]
}
pub fn replayers_c09() -> Vec<(&'static str, ReplayFn)> {
    vec![("dev", |v| replay_with::<DevCase>(v, &check_dev)), ("dev-alias", |v| replay_with::<DevAliasCase>(v, &check_dev_alias)), ("dev-long", |v| replay_with::<DevCase>(v, &check_dev))]
}
pub fn replayers_c10() -> Vec<(&'static str, ReplayFn)> {
    vec![("ent", |v| replay_with::<EntCase>(v, &check_ent)), ("ent-long", |v| replay_with::<EntCase>(v, &check_ent))]
}

#[allow(dead_code)]
fn _u(_: ArrayD<f64>) {}
