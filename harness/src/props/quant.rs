//! C01 (quantiles equal the documented order statistic), C18 (bulk == single item by item),
//! C19 (order laws).

use crate::core::*;
use crate::gen::*;
use crate::layout::*;
use crate::qoracle::*;
use crate::{dispatch_ord, ensure, fail};
use ndarray::{ArrayD, Ix1, Ix2, Ix3, IxDyn};
use proptest::prelude::*;
use serde::{Deserialize, Serialize};

#[derive(Clone, Debug, Serialize, Deserialize, Hash)]
pub struct QCase {
    pub ty: Ty,
    pub shape: Vec<usize>,
    pub layout: LayoutSpec,
    pub axis: usize,
    /// logical row-major data in the abstract encoding (integer value / IEEE bits)
    pub data: Vec<i128>,
    pub qs: Vec<QSpec>,
    pub strat: Strat,
    pub api: Api,
    /// call through the static dimension type (Ix1..Ix3) instead of IxDyn
    pub static_dim: bool,
    /// the call is repeated under each of these pivot sources; all outputs must agree
    pub pivots: Vec<Pivots>,
}

pub struct QRun<T> {
    pub result: ArrayD<T>,
    pub after: Laid<T>,
}

/// Executes the quantile call of `c` under one pivot source on a freshly laid-out array.
pub fn run_call<T: QEl>(c: &QCase, qs: &[f64], pv: &Pivots) -> Result<Result<QRun<T>, ndarray_stats::errors::QuantileError>, String> {
    let data: Vec<T> = c.data.iter().map(|&v| T::from_abs(v)).collect();
    let mut laid = Laid::new(&c.layout, &c.shape, &data);
    let qn = n64s(qs);
    let bulk = matches!(c.api, Api::AxisBulk | Api::OneDBulk);
    let one_d = matches!(c.api, Api::OneDSingle | Api::OneDBulk);
    let nd = c.shape.len();
    let axis = c.axis;
    let strat = c.strat;
    let static_dim = c.static_dim;
    pv.install();
    let r = {
        let v = laid.view_mut();
        catch(move || {
            if one_d {
                call_1d(v.into_dimensionality::<Ix1>().unwrap(), &qn, bulk, strat)
            } else if static_dim && nd == 1 {
                call_axis(v.into_dimensionality::<Ix1>().unwrap(), axis, &qn, bulk, strat)
            } else if static_dim && nd == 2 {
                call_axis(v.into_dimensionality::<Ix2>().unwrap(), axis, &qn, bulk, strat)
            } else if static_dim && nd == 3 {
                call_axis(v.into_dimensionality::<Ix3>().unwrap(), axis, &qn, bulk, strat)
            } else {
                call_axis::<T, IxDyn>(v, axis, &qn, bulk, strat)
            }
        })
    };
    Pivots::uninstall();
    match r {
        Err(p) => Err(p),
        Ok(Err(e)) => Ok(Err(e)),
        Ok(Ok(result)) => Ok(Ok(QRun { result, after: laid })),
    }
}

pub fn sorted_lanes(c: &QCase) -> Vec<Vec<Val>> {
    lane_indexes(&c.shape, c.axis)
        .into_iter()
        .map(|idx| {
            let mut v: Vec<Val> = idx.iter().map(|&i| Val::of(c.ty, c.data[i])).collect();
            sort_vals(&mut v);
            v
        })
        .collect()
}

pub fn resolve_qs(c: &QCase) -> Vec<f64> {
    let n = c.shape[c.axis].max(1);
    c.qs.iter().map(|q| q.resolve(n)).collect()
}

fn out_of_domain(c: &QCase) -> bool {
    // Linear on 64-bit integers is only quantified for magnitudes below 2^52
    c.strat == Strat::Linear && matches!(c.ty, Ty::I64 | Ty::U64 | Ty::Usize) && c.data.iter().any(|v| v.abs() >= (1i128 << 52))
}

pub fn expected_shape(c: &QCase, nq: usize) -> Vec<usize> {
    let bulk = matches!(c.api, Api::AxisBulk | Api::OneDBulk);
    let mut s = c.shape.clone();
    if bulk {
        s[c.axis] = nq;
    } else {
        s.remove(c.axis);
    }
    s
}

pub fn check_quant_t<T: QEl>(c: &QCase) -> CheckResult {
    let n = c.shape[c.axis];
    let one_d = matches!(c.api, Api::OneDSingle | Api::OneDBulk);
    let bulk = matches!(c.api, Api::AxisBulk | Api::OneDBulk);
    if n == 0 || (one_d && c.shape.len() != 1) || (!bulk && c.qs.is_empty()) || c.pivots.is_empty() || out_of_domain(c) {
        return Ok(Info::discarded());
    }
    let qs_all = resolve_qs(c);
    let qs: Vec<f64> = if bulk { qs_all.clone() } else { vec![qs_all[0]] };
    let lanes = sorted_lanes(c);
    if !strict() {
        for l in &lanes {
            for &q in &qs {
                if lane_hits_d5(c.ty, c.strat, l, q) {
                    return Ok(Info::excluded());
                }
            }
        }
    }
    let want_shape = expected_shape(c, qs.len());
    let mut first: Option<Vec<i128>> = None;
    for pv in &c.pivots {
        let run = match run_call::<T>(c, &qs, pv) {
            Err(p) => fail!("panic", "quantile call panicked: {} (q = {:?}, pivots {:?})", p, qs, pv),
            Ok(Err(e)) => fail!("error-kind", "quantile call returned Err({:?}) for a non-empty axis and q = {:?} in [0,1]", e, qs),
            Ok(Ok(r)) => r,
        };
        ensure!(
            run.result.shape() == &want_shape[..],
            "shape",
            "result has shape {:?}, expected {:?} (input {:?}, axis {}, {} q)",
            run.result.shape(),
            want_shape,
            c.shape,
            c.axis,
            qs.len()
        );
        let res: Vec<T> = run.result.iter().cloned().collect();
        // entry of lane l for q_j
        let res_lanes = if bulk { lane_indexes(&want_shape, c.axis) } else { vec![] };
        for (l, sorted) in lanes.iter().enumerate() {
            for (j, &q) in qs.iter().enumerate() {
                let flat = if bulk { res_lanes[l][j] } else { l };
                let r = Val::of(c.ty, res[flat].to_abs());
                match judge(c.ty, c.strat, sorted, q, r, strict()) {
                    Verdict::Ok => {}
                    Verdict::Known => return Ok(Info::excluded()),
                    Verdict::Bad(why) => fail!(
                        "wrong-value",
                        "{:?} quantile q[{}]={:e} of lane {} (sorted {:?}) is {:?}: {} (type {:?}, shape {:?}, axis {}, api {:?}, pivots {:?})",
                        c.strat,
                        j,
                        q,
                        l,
                        sorted,
                        r,
                        why,
                        c.ty,
                        c.shape,
                        c.axis,
                        c.api,
                        pv
                    ),
                }
            }
        }
        let enc: Vec<i128> = res.iter().map(|x| x.to_abs()).collect();
        match &first {
            None => first = Some(enc),
            Some(f) => {
                let same = f.len() == enc.len() && f.iter().zip(&enc).all(|(a, b)| T::from_abs(*a) == T::from_abs(*b));
                ensure!(same, "determinism", "two pivot sequences gave different results: {:?} vs {:?}", f, enc);
            }
        }
        if let Err(e) = run.after.guards_intact() {
            fail!("guard", "{}", e);
        }
        let before: Vec<T> = c.data.iter().map(|&v| T::from_abs(v)).collect();
        if let Err(e) = lanes_preserved(&before, &run.after.logical(), &c.shape, c.axis) {
            fail!("multiset", "{}", e);
        }
    }
    // non-trivial: lane length >= 3, some lane not all equal, and lo != hi or a boundary q
    let varied = lanes.iter().any(|l| l.first().map(|f| !l.iter().all(|x| x.eqv(f))).unwrap_or(false));
    let used_specs: &[QSpec] = if bulk { &c.qs } else { &c.qs[..1] };
    let interesting_q = qs.iter().zip(used_specs).any(|(&q, sp)| {
        let rd = &readings(q, n)[0];
        rd.lo != rd.hi || sp.is_boundary()
    });
    let amb = qs.iter().any(|&q| boundary_ambiguous(q, n));
    Ok(Info::new(n >= 3 && varied && interesting_q)
        .class(c.ty.class())
        .class(c.strat.class())
        .class(c.layout.class())
        .class(match c.api {
            Api::AxisSingle => "api:quantile_axis_mut",
            Api::AxisBulk => "api:quantiles_axis_mut",
            Api::OneDSingle => "api:quantile_mut",
            Api::OneDBulk => "api:quantiles_mut",
        })
        .class_if(amb, "q:boundary-ambiguous(f64 vs exact product)")
        .class_if(used_specs.iter().any(|s| s.is_boundary()), "q:boundary-constructed")
        .class_if(c.shape.len() >= 2, "ndim>=2")
        .class_if(c.pivots.iter().any(|p| p.is_real()), "pivots:real-rng")
        .class_if(bulk && qs.len() >= 2, "bulk>=2q")
        .class_if(bulk && qs.len() >= 64, "bulk>=64q")
        .class_if(n > 256, "lane>256")
        .class_if(n >= 1024, "lane>=1024"))
}

pub fn check_quant(c: &QCase) -> CheckResult {
    dispatch_ord!(c.ty, check_quant_t(c))
}

// ---------------------------------------------------------------------------------------
// strategies

pub fn qcase_strategy(max_lane: usize, with_n32: bool, wide: bool) -> impl Strategy<Value = QCase> {
    (ty_strategy(with_n32), 1usize..=4, strat_strategy(), any::<u8>(), any::<bool>())
        .prop_flat_map(move |(ty, nd, strat, api_roll, static_dim)| {
            let nd = if api_roll % 4 == 3 { 1 } else { nd };
            let max_axis = match nd {
                1 => max_lane,
                2 => max_lane.min(12),
                3 => 6,
                _ => 4,
            };
            (Just((ty, nd, strat, api_roll, static_dim)), shape_strategy(nd, max_axis, 400, false), 0..nd, layout_strategy(nd))
        })
        .prop_flat_map(move |((ty, nd, strat, api_roll, static_dim), mut shape, axis, layout)| {
            // occasionally a zero-length *other* axis
            if nd >= 2 && api_roll % 29 == 0 {
                let k = (axis + 1) % nd;
                shape[k] = 0;
            }
            let total: usize = shape.iter().product();
            let linear64 = strat == Strat::Linear && matches!(ty, Ty::I64 | Ty::U64 | Ty::Usize);
            let data = ord_values(ty, total..total + 1, wide && !linear64);
            let api = match (nd, api_roll % 4) {
                (1, 2) => Api::OneDSingle,
                (1, 3) => Api::OneDBulk,
                (_, 0) | (_, 2) => Api::AxisSingle,
                _ => Api::AxisBulk,
            };
            let nq = if matches!(api, Api::AxisBulk | Api::OneDBulk) { 0..33usize } else { 1..2usize };
            (
                Just((ty, strat, static_dim, shape, axis, layout, api)),
                data,
                proptest::collection::vec(qspec_strategy(), nq),
                proptest::collection::vec(pivots_strategy(), 1..3),
            )
        })
        .prop_map(|((ty, strat, static_dim, shape, axis, layout, api), data, qs, pivots)| QCase { ty, shape, layout, axis, data, qs, strat, api, static_dim, pivots })
}

/// Long lanes (hundreds to thousands of elements, lengths around powers of two) and long
/// request lists (up to several hundred quantiles, both extremes, runs of adjacent ranks):
/// the regimes a thresholded fast path only enters for sizes the short cases never reach.
pub fn qcase_long_strategy(max_lane: usize, with_n32: bool) -> impl Strategy<Value = QCase> {
    let special: Vec<usize> = vec![129, 200, 255, 256, 257, 511, 512, 513, 1000, 1023, 1024, 1025, 2000, 2047, 2048, 2049, 4095, 4096, 4097, 5000]
        .into_iter()
        .filter(|&n| n <= max_lane)
        .collect();
    (ty_strategy(with_n32), strat_strategy(), any::<u8>(), any::<bool>(), prop_oneof![2 => proptest::sample::select(special), 3 => 129usize..=max_lane], 1usize..=3, 0usize..2)
        .prop_flat_map(move |(ty, strat, api_roll, static_dim, lane, others, axis)| {
            let one_d = api_roll % 3 == 0;
            let (shape, axis) = if one_d {
                (vec![lane], 0)
            } else if axis == 0 {
                (vec![lane.min(3000), others], 0)
            } else {
                (vec![others, lane.min(3000)], 1)
            };
            let nd = shape.len();
            let total: usize = shape.iter().product();
            let linear64 = strat == Strat::Linear && matches!(ty, Ty::I64 | Ty::U64 | Ty::Usize);
            let api = match (nd, api_roll % 4) {
                (1, 0) => Api::OneDSingle,
                (1, 1) => Api::OneDBulk,
                (_, 2) => Api::AxisSingle,
                _ => Api::AxisBulk,
            };
            let bulk = matches!(api, Api::AxisBulk | Api::OneDBulk);
            let nq = if bulk { 1..400usize } else { 1..2usize };
            (
                Just((ty, strat, static_dim, shape, axis, api)),
                layout_strategy(nd),
                ord_values(ty, total..total + 1, !linear64),
                (any::<u8>(), proptest::collection::vec(qspec_strategy(), nq), any::<u16>()),
                proptest::collection::vec(pivots_strategy(), 1..3),
                any::<u8>(),
            )
        })
        .prop_map(|((ty, strat, static_dim, shape, axis, api), layout, mut data, (qclass, mut qs, qsel), pivots, arrange)| {
            let bulk = matches!(api, Api::AxisBulk | Api::OneDBulk);
            let n = shape[axis];
            if bulk {
                let grid = |k: usize| QSpec::Grid { sel: ((((k as u64) << 16) / n as u64 + 1).min(65535)) as u16, nudge: 0 };
                match qclass % 8 {
                    // both extremes among a few others
                    0 => {
                        qs.truncate(4);
                        qs.push(QSpec::One);
                        qs.insert(0, QSpec::Zero);
                    }
                    1 => qs = vec![QSpec::One, QSpec::Zero],
                    // a run of adjacent ranks
                    2 | 3 => {
                        let start = (qsel as usize * n) >> 16;
                        let len = qs.len().min(250);
                        qs = (start..(start + len).min(n)).map(grid).collect();
                    }
                    // the upper / lower tail
                    4 => {
                        let len = qs.len().min(200).min(n);
                        qs = if qsel % 2 == 0 { (n - len..n).map(grid).collect() } else { (0..len).map(grid).collect() };
                    }
                    5 => qs.truncate(12),
                    _ => {}
                }
            }
            // arrange lanes: extremes at the ends, monotone lanes
            let key = |v: i128| Val::of(ty, v);
            for lane in lane_indexes(&shape, axis) {
                if lane.len() < 2 {
                    continue;
                }
                let kmax = *lane.iter().max_by(|&&a, &&b| key(data[a]).cmp(&key(data[b]))).unwrap();
                let kmin = *lane.iter().min_by(|&&a, &&b| key(data[a]).cmp(&key(data[b]))).unwrap();
                match arrange % 8 {
                    0 => data.swap(lane[0], kmax),
                    1 => data.swap(lane[lane.len() - 1], kmin),
                    2 => {
                        let mut vals: Vec<i128> = lane.iter().map(|&i| data[i]).collect();
                        vals.sort_by(|a, b| key(*b).cmp(&key(*a)));
                        for (&i, v) in lane.iter().zip(vals) {
                            data[i] = v;
                        }
                    }
                    3 => {
                        let mut vals: Vec<i128> = lane.iter().map(|&i| data[i]).collect();
                        vals.sort_by(|a, b| key(*a).cmp(&key(*b)));
                        for (&i, v) in lane.iter().zip(vals) {
                            data[i] = v;
                        }
                    }
                    _ => {}
                }
            }
            QCase { ty, shape, layout, axis, data, qs, strat, api, static_dim, pivots }
        })
}

// ---------------------------------------------------------------------------------------
// exhaustive: weak-order patterns x boundary q x strategies x ALL pivot sequences

fn boundary_qspecs(n: usize) -> Vec<QSpec> {
    let mut v = vec![QSpec::Zero, QSpec::One, QSpec::Tiny, QSpec::AlmostOne];
    for k in 0..n {
        let sel = (((k as u32) << 16) / n as u32 + 1).min(65535) as u16;
        for nudge in [-1i8, 0, 1] {
            v.push(QSpec::Grid { sel, nudge });
        }
    }
    for k in 0..n.saturating_sub(1) {
        let sel = (((k as u32) << 16) / (n - 1) as u32 + 1).min(65535) as u16;
        for nudge in [-1i8, 0, 1] {
            v.push(QSpec::Half { sel, nudge });
        }
    }
    v
}

fn enum_quant(ctx: &Ctx, max_n: usize) {
    let mut item = 0u64;
    let mut evals = 0u64;
    let mut nontriv = 0u64;
    let mut sampled = false;
    for n in 1..=max_n {
        let qspecs = boundary_qspecs(n);
        let ok = weak_orders(n, &mut |pat| {
            item += 1;
            if !ctx.mine(item) {
                return true;
            }
            for ty in [Ty::I8, Ty::U16, Ty::N64] {
                // values: pattern scaled so that midpoints / interpolation are informative
                let data: Vec<i128> = pat
                    .iter()
                    .map(|&x| match ty {
                        Ty::N64 => f64_abs(x as f64 * 0.3 - 0.4),
                        Ty::I8 => x as i128 * 7 - 11,
                        _ => x as i128 * 5,
                    })
                    .collect();
                for &strat in STRATS.iter() {
                    for &q in &qspecs {
                        let r = dfs_pivots(|prefix| {
                            let c = QCase {
                                ty,
                                shape: vec![n],
                                layout: LayoutSpec::c_order(1),
                                axis: 0,
                                data: data.clone(),
                                qs: vec![q],
                                strat,
                                api: Api::AxisSingle,
                                static_dim: true,
                                pivots: vec![Pivots::Explicit(prefix.to_vec())],
                            };
                            match guarded(&check_quant, &c) {
                                Ok(info) => {
                                    evals += 1;
                                    if info.nontrivial {
                                        nontriv += 1;
                                        if !sampled && n == max_n && !prefix.is_empty() {
                                            sampled = true;
                                            ctx.sample("enumeration+pivot-dfs", "quant", &c);
                                        }
                                    }
                                    true
                                }
                                Err(f) => {
                                    ctx.violation("quant", &c, &f);
                                    false
                                }
                            }
                        });
                        if r.is_none() {
                            return false;
                        }
                    }
                }
            }
            true
        });
        if !ok {
            ctx.bulk("enumeration+pivot-dfs", evals, nontriv, &[]);
            return;
        }
    }
    ctx.bulk("enumeration+pivot-dfs", evals, nontriv, &[("quant:enumerated-runs", evals)]);
    ctx.exhaustive(format!(
        "quantile_axis_mut: all weak-order patterns of length 1..={} x types {{i8,u16,N64}} x 5 strategies x boundary q set (0, 1, tiny, 1-2^-53, k/(N-1) and (k+1/2)/(N-1) each -1/0/+1 ulp) x ALL pivot sequences",
        max_n
    ));
}

pub fn run_c01(ctx: &Ctx) {
    let t = ctx.tier();
    enum_quant(ctx, t.pick(5, 6));
    ctx.run_proptest("quant", t.pick(60_000, 2_000_000), qcase_strategy(t.pick(120, 400), t == Tier::Thorough, true), &check_quant);
    ctx.run_proptest("quant-long", t.pick(800, 30_000), qcase_long_strategy(t.pick(3_000, 5_000), t == Tier::Thorough), &check_quant);
}

pub fn replayers() -> Vec<(&'static str, ReplayFn)> {
    vec![("quant", |v| replay_with::<QCase>(v, &check_quant)), ("quant-long", |v| replay_with::<QCase>(v, &check_quant))]
}
