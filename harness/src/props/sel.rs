//! C02 (selection under every pivot sequence), C15 (partition_mut), C16 (out-of-range
//! positions are rejected, in-range ones never are).

use crate::core::*;
use crate::layout::*;
use crate::{ensure, fail};
use ndarray::{arr1, Array1};
use ndarray_stats::histogram::{Bins, Edges, Grid};
use ndarray_stats::Sort1dExt;
use proptest::prelude::*;
use serde::{Deserialize, Serialize};

// ---------------------------------------------------------------------------------------
// cases

#[derive(Clone, Debug, Serialize, Deserialize, Hash)]
pub struct PartCase {
    pub values: Vec<i64>,
    pub pivot: usize,
    pub stride: isize,
    pub offset: usize,
    /// element type the values are converted to: 0 = i64, 1 = i128, 2 = BigInt, 3 = i16
    #[serde(default)]
    pub elem: u8,
}

/// Element types of the partition check (different sizes: a routine may dispatch on them).
pub trait PEl: El + Ord + Clone + std::fmt::Debug + std::fmt::Display {
    fn from_i(v: i64) -> Self;
}
impl PEl for i64 {
    fn from_i(v: i64) -> Self {
        v
    }
}
impl PEl for i128 {
    fn from_i(v: i64) -> Self {
        v as i128 * 1_000_000_007
    }
}
impl PEl for i16 {
    fn from_i(v: i64) -> Self {
        v as i16
    }
}
impl PEl for num_bigint::BigInt {
    fn from_i(v: i64) -> Self {
        num_bigint::BigInt::from(v) * num_bigint::BigInt::from(1u64 << 40) * num_bigint::BigInt::from(1u64 << 40)
    }
}

#[derive(Clone, Debug, Serialize, Deserialize, Hash)]
pub struct SelCase {
    pub values: Vec<i64>,
    pub index: usize,
    pub stride: isize,
    pub offset: usize,
    pub pivots: Pivots,
}

#[derive(Clone, Debug, Serialize, Deserialize, Hash)]
pub struct BulkCase {
    pub values: Vec<i64>,
    pub indexes: Vec<usize>,
    pub stride: isize,
    pub offset: usize,
    pub pivots: Pivots,
}

#[derive(Clone, Debug, Serialize, Deserialize, Hash)]
pub struct BinsIndexCase {
    /// edge lists, one per axis
    pub edges: Vec<Vec<i64>>,
    /// requested bin per axis
    pub index: Vec<usize>,
}

fn is_nontrivial_values(v: &[i64]) -> bool {
    v.len() >= 2
}

// ---------------------------------------------------------------------------------------
// C15: partition_mut

pub fn check_partition(c: &PartCase) -> CheckResult {
    match c.elem % 4 {
        1 => check_partition_t::<i128>(c),
        2 => check_partition_t::<num_bigint::BigInt>(c),
        3 => check_partition_t::<i16>(c),
        _ => check_partition_t::<i64>(c),
    }
}

pub fn check_partition_t<T: PEl>(c: &PartCase) -> CheckResult {
    let n = c.values.len();
    let values: Vec<T> = c.values.iter().map(|&v| T::from_i(v)).collect();
    let mut buf = make_buf(&values, c.offset, c.stride, 1);
    let in_range = c.pivot < n;
    let res = {
        let mut v = view1(&mut buf, c.offset, n, c.stride);
        catch(move || v.partition_mut(c.pivot))
    };
    if !in_range {
        // C16 direction: must panic
        ensure!(
            res.is_err(),
            "no-panic",
            "partition_mut({}) on an array of length {} returned {:?} instead of panicking",
            c.pivot,
            n,
            res
        );
        if let Err(e) = guards_intact(&buf, c.offset, n, c.stride) {
            fail!("guard", "{}", e);
        }
        return Ok(Info::new(n >= 1).class("out-of-range"));
    }
    let k = match res {
        Ok(k) => k,
        Err(p) => fail!(
            "panic",
            "partition_mut({}) on {:?} (in range, length {}) panicked: {}",
            c.pivot,
            values,
            n,
            p
        ),
    };
    let pv = values[c.pivot].clone();
    let after: Vec<T> = positions(c.offset, n, c.stride).iter().map(|&p| buf[p].clone()).collect();
    let rank = values.iter().filter(|x| **x < pv).count();
    ensure!(
        k == rank,
        "wrong-value",
        "partition_mut({}) on {:?} returned {}, but {} elements are strictly smaller than the pivot value {}",
        c.pivot,
        values,
        k,
        rank,
        pv
    );
    ensure!(k < n && after[k] == pv, "wrong-value", "position {} holds {:?}, not the pivot value {} (after: {:?})", k, after.get(k), pv, after);
    for (j, x) in after.iter().enumerate() {
        if j < k {
            ensure!(*x < pv, "wrong-value", "element {} at position {} < k={} is not < pivot {} (after: {:?})", x, j, k, pv, after);
        } else if j > k {
            ensure!(*x >= pv, "wrong-value", "element {} at position {} > k={} is not >= pivot {} (after: {:?})", x, j, k, pv, after);
        }
    }
    let mut a = after.clone();
    a.sort();
    let mut b = values.clone();
    b.sort();
    ensure!(a == b, "multiset", "partition_mut changed the multiset: before {:?}, after {:?}", values, after);
    if let Err(e) = guards_intact(&buf, c.offset, n, c.stride) {
        fail!("guard", "{}", e);
    }
    Ok(Info::new(n >= 2)
        .class_if(n == 1, "len-1")
        .class_if(c.stride != 1, "strided")
        .class_if(c.stride < 0, "negative-stride")
        .class_if(c.elem % 4 == 1, "elem:i128")
        .class_if(c.elem % 4 == 2, "elem:BigInt")
        .class_if(c.elem % 4 == 3, "elem:i16")
        .class_if(n >= 64 && n % 64 <= 1, "length:multiple-of-64(+1)"))
}

// ---------------------------------------------------------------------------------------
// C02 / C16: single selection

pub fn check_select(c: &SelCase) -> CheckResult {
    let n = c.values.len();
    let mut buf = make_buf(&c.values, c.offset, c.stride, 1);
    let in_range = c.index < n;
    c.pivots.install();
    let res = {
        let mut v = view1(&mut buf, c.offset, n, c.stride);
        catch(move || v.get_from_sorted_mut(c.index))
    };
    ndarray_stats::verif_hooks::set_chooser(None);
    if !in_range {
        ensure!(
            res.is_err(),
            "no-panic",
            "get_from_sorted_mut({}) on {:?} (length {}) returned {:?} instead of panicking (pivots {:?})",
            c.index,
            c.values,
            n,
            res,
            c.pivots
        );
        if let Err(e) = guards_intact(&buf, c.offset, n, c.stride) {
            fail!("guard", "{}", e);
        }
        return Ok(Info::new(n >= 1).class("out-of-range"));
    }
    let got = match res {
        Ok(g) => g,
        Err(p) => fail!(
            "panic",
            "get_from_sorted_mut({}) on {:?} (in range) panicked: {} (pivots {:?})",
            c.index,
            c.values,
            p,
            c.pivots
        ),
    };
    let mut sorted = c.values.clone();
    sorted.sort_unstable();
    ensure!(
        got == sorted[c.index],
        "wrong-value",
        "get_from_sorted_mut({}) on {:?} returned {}, a full sort gives {} (pivots {:?})",
        c.index,
        c.values,
        got,
        sorted[c.index],
        c.pivots
    );
    let after: Vec<i64> = positions(c.offset, n, c.stride).iter().map(|&p| buf[p]).collect();
    for (j, &x) in after.iter().enumerate() {
        if j < c.index {
            ensure!(x <= got, "postcondition", "after selecting index {}: element {} at position {} is > returned {} (after {:?})", c.index, x, j, got, after);
        } else {
            ensure!(x >= got, "postcondition", "after selecting index {}: element {} at position {} is < returned {} (after {:?})", c.index, x, j, got, after);
        }
    }
    let mut a = after.clone();
    a.sort_unstable();
    ensure!(a == sorted, "multiset", "selection changed the multiset: before {:?}, after {:?}", c.values, after);
    if let Err(e) = guards_intact(&buf, c.offset, n, c.stride) {
        fail!("guard", "{}", e);
    }
    Ok(Info::new(is_nontrivial_values(&c.values))
        .class_if(c.stride != 1, "strided")
        .class_if(n > 256, "long(>256)")
        .class_if(n >= 1024, "long(>=1024)")
        .class_if(n <= 2, "len<=2"))
}

// ---------------------------------------------------------------------------------------
// C02 / C16: bulk selection

pub fn check_bulk(c: &BulkCase) -> CheckResult {
    let n = c.values.len();
    let mut buf = make_buf(&c.values, c.offset, c.stride, 1);
    let in_range = c.indexes.iter().all(|&i| i < n);
    c.pivots.install();
    let idx = arr1(&c.indexes);
    let res = {
        let mut v = view1(&mut buf, c.offset, n, c.stride);
        catch(move || v.get_many_from_sorted_mut(&idx))
    };
    ndarray_stats::verif_hooks::set_chooser(None);
    if !in_range {
        ensure!(
            res.is_err(),
            "no-panic",
            "get_many_from_sorted_mut({:?}) on {:?} (length {}) returned {:?} instead of panicking (pivots {:?})",
            c.indexes,
            c.values,
            n,
            res,
            c.pivots
        );
        if let Err(e) = guards_intact(&buf, c.offset, n, c.stride) {
            fail!("guard", "{}", e);
        }
        return Ok(Info::new(n >= 1).class("out-of-range"));
    }
    let map = match res {
        Ok(m) => m,
        Err(p) => fail!(
            "panic",
            "get_many_from_sorted_mut({:?}) on {:?} (all in range) panicked: {} (pivots {:?})",
            c.indexes,
            c.values,
            p,
            c.pivots
        ),
    };
    let mut sorted = c.values.clone();
    sorted.sort_unstable();
    let mut want: Vec<usize> = c.indexes.clone();
    want.sort_unstable();
    want.dedup();
    let keys: Vec<usize> = map.keys().cloned().collect();
    ensure!(
        keys == want,
        "wrong-value",
        "bulk selection of {:?} on {:?}: keys in iteration order are {:?}, expected the distinct requested indexes in increasing order {:?}",
        c.indexes,
        c.values,
        keys,
        want
    );
    for (&k, &v) in map.iter() {
        ensure!(
            v == sorted[k],
            "wrong-value",
            "bulk selection of {:?} on {:?}: entry for index {} is {}, a full sort gives {} (pivots {:?})",
            c.indexes,
            c.values,
            k,
            v,
            sorted[k],
            c.pivots
        );
    }
    let after: Vec<i64> = positions(c.offset, n, c.stride).iter().map(|&p| buf[p]).collect();
    let mut a = after.clone();
    a.sort_unstable();
    ensure!(a == sorted, "multiset", "bulk selection changed the multiset: before {:?}, after {:?}", c.values, after);
    if let Err(e) = guards_intact(&buf, c.offset, n, c.stride) {
        fail!("guard", "{}", e);
    }
    let repeats = want.len() < c.indexes.len();
    Ok(Info::new(n >= 2 && !c.indexes.is_empty())
        .class_if(repeats, "repeated-indexes")
        .class_if(c.indexes.windows(2).any(|w| w[0] > w[1]), "unsorted-indexes")
        .class_if(n > 256, "long(>256)")
        .class_if(n >= 1024, "long(>=1024)")
        .class_if(n >= 2 && want.first() == Some(&0) && want.last() == Some(&(n - 1)), "both-extremes-requested")
        .class_if(want.len() >= 32 && want[want.len() - 1] - want[0] == want.len() - 1, "consecutive-block(>=32)")
        .class_if(want.len() >= 64, "distinct-indexes>=64")
        .class_if(c.stride != 1, "strided"))
}

// ---------------------------------------------------------------------------------------
// C02: the same oracles on other element types (i128, BigInt, i16), owned arrays

fn select_wide_t<T: PEl>(c: &SelCase) -> CheckResult {
    let n = c.values.len();
    if c.index >= n {
        return Ok(Info::discarded());
    }
    let values: Vec<T> = c.values.iter().map(|&v| T::from_i(v)).collect();
    let mut a = ndarray::Array1::from(values.clone());
    c.pivots.install();
    let res = catch(|| a.get_from_sorted_mut(c.index));
    Pivots::uninstall();
    let got = match res {
        Ok(g) => g,
        Err(p) => fail!("panic", "get_from_sorted_mut({}) on {:?} panicked: {}", c.index, values, p),
    };
    let mut sorted = values.clone();
    sorted.sort();
    ensure!(got == sorted[c.index], "wrong-value", "get_from_sorted_mut({}) on {:?} returned {}, a full sort gives {} (pivots {:?})", c.index, values, got, sorted[c.index], c.pivots);
    for (j, x) in a.iter().enumerate() {
        if j < c.index {
            ensure!(*x <= got, "postcondition", "after selecting index {}: element {} at position {} is > returned {}", c.index, x, j, got);
        } else {
            ensure!(*x >= got, "postcondition", "after selecting index {}: element {} at position {} is < returned {}", c.index, x, j, got);
        }
    }
    let mut after: Vec<T> = a.iter().cloned().collect();
    after.sort();
    ensure!(after == sorted, "multiset", "selection changed the multiset of {:?}", values);
    Ok(Info::new(n >= 2).class("elem:non-i64"))
}

pub fn check_select_wide(c: &SelCase) -> CheckResult {
    match c.values.len() % 3 {
        0 => select_wide_t::<i128>(c),
        1 => select_wide_t::<num_bigint::BigInt>(c),
        _ => select_wide_t::<i16>(c),
    }
}

fn bulk_wide_t<T: PEl>(c: &BulkCase) -> CheckResult {
    let n = c.values.len();
    if c.indexes.iter().any(|&i| i >= n) {
        return Ok(Info::discarded());
    }
    let values: Vec<T> = c.values.iter().map(|&v| T::from_i(v)).collect();
    let mut a = ndarray::Array1::from(values.clone());
    c.pivots.install();
    let idx = arr1(&c.indexes);
    let res = catch(|| a.get_many_from_sorted_mut(&idx));
    Pivots::uninstall();
    let map = match res {
        Ok(m) => m,
        Err(p) => fail!("panic", "get_many_from_sorted_mut({:?}) on {:?} panicked: {}", c.indexes, values, p),
    };
    let mut sorted = values.clone();
    sorted.sort();
    let mut want: Vec<usize> = c.indexes.clone();
    want.sort_unstable();
    want.dedup();
    let keys: Vec<usize> = map.keys().cloned().collect();
    ensure!(keys == want, "wrong-value", "bulk selection of {:?}: keys {:?}, expected {:?}", c.indexes, keys, want);
    for (&k, v) in map.iter() {
        ensure!(*v == sorted[k], "wrong-value", "bulk selection of {:?} on {:?}: entry for index {} is {}, a full sort gives {}", c.indexes, values, k, v, sorted[k]);
    }
    Ok(Info::new(n >= 2 && !c.indexes.is_empty()).class("elem:non-i64"))
}

pub fn check_bulk_wide(c: &BulkCase) -> CheckResult {
    match c.values.len() % 3 {
        0 => bulk_wide_t::<i128>(c),
        1 => bulk_wide_t::<num_bigint::BigInt>(c),
        _ => bulk_wide_t::<i16>(c),
    }
}

// ---------------------------------------------------------------------------------------
// C16: Bins / Grid index

pub fn check_bins_index(c: &BinsIndexCase) -> CheckResult {
    let bins: Vec<Bins<i64>> = c.edges.iter().map(|e| Bins::new(Edges::from(e.clone()))).collect();
    let lens: Vec<usize> = bins.iter().map(|b| b.len()).collect();
    let in_range = c.index.iter().zip(&lens).all(|(&i, &l)| i < l);
    // per-axis Bins::index
    for (ax, b) in bins.iter().enumerate() {
        let i = c.index[ax];
        let r = catch(|| b.index(i));
        if i < lens[ax] {
            let r = match r {
                Ok(r) => r,
                Err(p) => fail!("panic", "Bins::index({}) with {} bins panicked: {}", i, lens[ax], p),
            };
            let mut e = c.edges[ax].clone();
            e.sort_unstable();
            e.dedup();
            ensure!(r.start == e[i] && r.end == e[i + 1], "wrong-value", "Bins::index({}) = {:?}, edges {:?}", i, r, e);
        } else {
            ensure!(r.is_err(), "no-panic", "Bins::index({}) on bins with {} bins (edges {:?}) returned {:?} instead of panicking", i, lens[ax], c.edges[ax], r);
        }
    }
    let grid = Grid::from(bins);
    let r = catch(|| grid.index(&c.index));
    if in_range {
        let r = match r {
            Ok(r) => r,
            Err(p) => fail!("panic", "Grid::index({:?}) with shape {:?} panicked: {}", c.index, lens, p),
        };
        ensure!(r.len() == c.index.len(), "wrong-value", "Grid::index returned {} ranges for {} axes", r.len(), c.index.len());
    } else {
        ensure!(r.is_err(), "no-panic", "Grid::index({:?}) on a grid of shape {:?} returned {:?} instead of panicking", c.index, lens, r);
    }
    Ok(Info::new(true).class_if(!in_range, "out-of-range").class_if(lens.iter().any(|&l| l == 0), "zero-bin-axis"))
}

// ---------------------------------------------------------------------------------------
// strategies

fn values_strategy(max_len: usize) -> impl Strategy<Value = Vec<i64>> {
    prop_oneof![
        3 => proptest::collection::vec(0i64..4, 0..max_len),
        2 => proptest::collection::vec(-100i64..100, 0..max_len),
        2 => proptest::collection::vec(any::<i64>(), 0..max_len),
        1 => proptest::collection::vec(prop_oneof![Just(i64::MIN), Just(i64::MAX), Just(0i64), Just(-1i64), any::<i64>()], 0..max_len),
        // one value repeated, a few others mixed in (deep recursions for any pivot rule)
        2 => (0..max_len * 2, proptest::collection::vec((any::<u16>(), -3i64..4), 0..6)).prop_map(|(n, extra)| {
            let mut v = vec![0i64; n];
            for (pos, x) in extra {
                if n > 0 {
                    v[pos as usize % n] = x;
                }
            }
            v
        }),
        1 => (0..max_len).prop_map(|n| (0..n as i64).collect::<Vec<_>>()),
        1 => (0..max_len).prop_map(|n| (0..n as i64).rev().collect::<Vec<_>>()),
    ]
}

fn stride_strategy() -> impl Strategy<Value = isize> {
    prop_oneof![3 => Just(1isize), 1 => Just(2isize), 1 => Just(3isize), 1 => Just(-1isize), 1 => Just(-2isize), 1 => Just(-3isize)]
}


/// Lengths at which a blocked / unrolled implementation changes regime.
fn special_length_values() -> impl Strategy<Value = Vec<i64>> {
    (proptest::sample::select(vec![31usize, 32, 33, 63, 64, 65, 127, 128, 129, 191, 192, 193, 255, 256, 257, 320, 384, 448, 512]), prop_oneof![Just(3i64), Just(50i64), Just(100_000i64)])
        .prop_flat_map(|(n, span)| proptest::collection::vec(0i64..span, n))
}

pub fn part_strategy(max_len: usize) -> impl Strategy<Value = PartCase> {
    (prop_oneof![5 => values_strategy(max_len).boxed(), 1 => special_length_values().boxed()], any::<u16>(), stride_strategy(), 0usize..3, 0u8..20, 0u8..8).prop_map(|(mut values, p, stride, offset, oor, el)| {
        let elem = if el < 5 { 0 } else { el - 4 };
        if values.is_empty() {
            values.push(0);
        }
        let n = values.len();
        // 5% out-of-range positions (C16 direction)
        let pivot = if oor == 0 { n + (p as usize % 3) } else { (p as usize * n) >> 16 };
        PartCase { values, pivot, stride, offset, elem }
    })
}

fn oor_position(n: usize, sel: u8) -> usize {
    match sel % 5 {
        0 => n,
        1 => n + 1,
        2 => 2 * n + 3,
        3 => usize::MAX / 2,
        _ => usize::MAX,
    }
}

pub fn sel_strategy(max_len: usize, oor_share: u8) -> impl Strategy<Value = SelCase> {
    (values_strategy(max_len), any::<u16>(), stride_strategy(), 0usize..3, pivots_strategy(), 0u8..100, any::<u8>()).prop_map(
        move |(values, p, stride, offset, pivots, roll, sel)| {
            let n = values.len();
            let index = if roll < oor_share || n == 0 { oor_position(n, sel) } else { (p as usize * n) >> 16 };
            SelCase { values, index, stride, offset, pivots }
        },
    )
}

pub fn bulk_strategy(max_len: usize, oor_share: u8) -> impl Strategy<Value = BulkCase> {
    (
        values_strategy(max_len),
        proptest::collection::vec(any::<u16>(), 0..12),
        stride_strategy(),
        0usize..3,
        pivots_strategy(),
        0u8..100,
        any::<u8>(),
    )
        .prop_map(move |(values, ps, stride, offset, pivots, roll, sel)| {
            let n = values.len();
            let mut indexes: Vec<usize> = if n == 0 { vec![] } else { ps.iter().map(|&p| (p as usize * n) >> 16).collect() };
            if roll < oor_share {
                let pos = if indexes.is_empty() { 0 } else { sel as usize % (indexes.len() + 1) };
                indexes.insert(pos, oor_position(n, sel));
            }
            BulkCase { values, indexes, stride, offset, pivots }
        })
}

/// Long arrays (hundreds to thousands of elements): lengths around powers of two and block
/// sizes, few / many / no repeated values, monotone runs, the extremes at the ends.
fn long_values_strategy(max_len: usize) -> impl Strategy<Value = Vec<i64>> {
    let special: Vec<usize> = vec![257, 300, 511, 512, 513, 1000, 1023, 1024, 1025, 2000, 2047, 2048, 2049, 3000, 4095, 4096, 4097, 5000, 8191, 8192, 8193]
        .into_iter()
        .filter(|&n| n <= max_len)
        .collect();
    let len = prop_oneof![2 => proptest::sample::select(special), 3 => 257usize..=max_len];
    (len, 0u8..9, any::<u64>()).prop_map(|(n, class, salt)| {
        let mut s = salt | 1;
        let mut next = move || {
            // splitmix64 on a generated seed: the values are a pure function of the case
            s = s.wrapping_add(0x9e37_79b9_7f4a_7c15);
            let mut z = s;
            z = (z ^ (z >> 30)).wrapping_mul(0xbf58_476d_1ce4_e5b9);
            z = (z ^ (z >> 27)).wrapping_mul(0x94d0_49bb_1331_11eb);
            z ^ (z >> 31)
        };
        let mut v: Vec<i64> = match class {
            0 => (0..n).map(|_| (next() % 4) as i64).collect(),
            1 => (0..n).map(|_| (next() % 40) as i64 - 20).collect(),
            2 => (0..n).map(|_| (next() % (n as u64 / 4).max(2)) as i64).collect(),
            3 => (0..n).map(|_| next() as i64).collect(),
            4 => (0..n as i64).collect(),
            5 => (0..n as i64).rev().collect(),
            // a permutation of 0..n
            6 | 7 => {
                let mut p: Vec<i64> = (0..n as i64).collect();
                for i in (1..n).rev() {
                    let j = (next() % (i as u64 + 1)) as usize;
                    p.swap(i, j);
                }
                p
            }
            // one value dominating
            _ => (0..n).map(|_| if next() % 16 == 0 { (next() % 7) as i64 - 3 } else { 0 }).collect(),
        };
        // half of the cases: put the maximum / minimum at an end
        match next() % 8 {
            0 => {
                let k = (0..n).max_by_key(|&k| v[k]).unwrap();
                v.swap(0, k);
            }
            1 => {
                let k = (0..n).min_by_key(|&k| v[k]).unwrap();
                v.swap(n - 1, k);
            }
            2 => {
                let k = (0..n).max_by_key(|&k| v[k]).unwrap();
                v.swap(0, k);
                let k = (0..n).min_by_key(|&k| v[k]).unwrap();
                v.swap(n - 1, k);
            }
            3 => {
                let k = (0..n).min_by_key(|&k| v[k]).unwrap();
                v.swap(0, k);
                let k = (0..n).max_by_key(|&k| v[k]).unwrap();
                v.swap(n - 1, k);
            }
            _ => {}
        }
        v
    })
}

/// Index lists for long arrays: a few scattered ranks, both extremes, consecutive blocks,
/// long lists, every rank.
pub fn long_indexes(n: usize, class: u8, ps: &[u16]) -> Vec<usize> {
    let at = |p: u16| (p as usize * n) >> 16;
    if n == 0 || ps.is_empty() {
        return vec![];
    }
    match class % 8 {
        0 => ps.iter().take(8).map(|&p| at(p)).collect(),
        1 => {
            let mut v = vec![0, n - 1];
            v.extend(ps.iter().take(3).map(|&p| at(p)));
            v
        }
        2 => vec![n - 1, 0],
        // a consecutive block
        3 | 4 => {
            let start = at(ps[0]);
            let len = 1 + (ps[ps.len() - 1] as usize % 200);
            (start..(start + len).min(n)).collect()
        }
        // the largest / smallest k
        5 => {
            let len = 1 + (ps[0] as usize % 150);
            if ps[ps.len() - 1] % 2 == 0 {
                (n.saturating_sub(len)..n).collect()
            } else {
                (0..len.min(n)).collect()
            }
        }
        // a long scattered list (unsorted, with repeats)
        6 => ps.iter().map(|&p| at(p)).collect(),
        _ => {
            if n <= 1200 {
                (0..n).rev().collect()
            } else {
                ps.iter().map(|&p| at(p)).collect()
            }
        }
    }
}

pub fn sel_long_strategy(max_len: usize) -> impl Strategy<Value = SelCase> {
    (long_values_strategy(max_len), any::<u16>(), 0u8..6, stride_strategy(), 0usize..3, pivots_strategy()).prop_map(|(values, p, edge, stride, offset, pivots)| {
        let n = values.len();
        let index = match edge {
            0 => 0,
            1 => n - 1,
            _ => (p as usize * n) >> 16,
        };
        SelCase { values, index, stride, offset, pivots }
    })
}

pub fn bulk_long_strategy(max_len: usize) -> impl Strategy<Value = BulkCase> {
    (long_values_strategy(max_len), any::<u8>(), proptest::collection::vec(any::<u16>(), 1..300), stride_strategy(), 0usize..3, pivots_strategy()).prop_map(|(values, class, ps, stride, offset, pivots)| {
        let indexes = long_indexes(values.len(), class, &ps);
        BulkCase { values, indexes, stride, offset, pivots }
    })
}

fn bins_index_strategy() -> impl Strategy<Value = BinsIndexCase> {
    proptest::collection::vec((proptest::collection::vec(-5i64..6, 0..6), 0usize..8, 0u8..8), 1..4).prop_map(|axes| {
        let mut edges = vec![];
        let mut index = vec![];
        for (e, i, roll) in axes {
            let mut d = e.clone();
            d.sort_unstable();
            d.dedup();
            let nb = d.len().saturating_sub(1);
            // mostly in range, sometimes exactly nb, nb+1, or huge
            let i = match roll {
                0 => nb,
                1 => nb + 1,
                2 => usize::MAX - (i % 6),
                _ => {
                    if nb == 0 {
                        i
                    } else {
                        i % nb
                    }
                }
            };
            edges.push(e);
            index.push(i);
        }
        BinsIndexCase { edges, index }
    })
}

// ---------------------------------------------------------------------------------------
// enumerations

const STRIDES: [(isize, usize); 5] = [(1, 0), (2, 1), (3, 0), (-1, 1), (-2, 0)];

/// C15 exhaustive: every weak-order pattern × every pivot position × 5 strides
/// (+ `extra_positions` out-of-range positions when `with_oor`).
fn enum_partition(ctx: &Ctx, max_n: usize, with_oor: bool, only_oor_and_small: bool) {
    let mut item = 0u64;
    for n in 1..=max_n {
        let mut evals = 0u64;
        let mut nontriv = 0u64;
        let mut len1 = 0u64;
        let mut oor = 0u64;
        let mut sampled = false;
        let ok = weak_orders(n, &mut |pat| {
            item += 1;
            if !ctx.mine(item) {
                return true;
            }
            let values: Vec<i64> = pat.iter().map(|&x| x as i64).collect();
            let mut positions: Vec<usize> = if only_oor_and_small && n > 2 { vec![] } else { (0..n).collect() };
            if with_oor {
                positions.extend_from_slice(&[n, n + 1, 2 * n + 3, usize::MAX / 2, usize::MAX]);
            }
            for &pivot in &positions {
                for &(stride, offset) in STRIDES.iter() {
                    let c = PartCase { values: values.clone(), pivot, stride, offset, elem: (item % 4) as u8 };
                    match guarded(&check_partition, &c) {
                        Ok(info) => {
                            evals += 1;
                            if info.nontrivial {
                                nontriv += 1;
                            }
                            if n == 1 && pivot < n {
                                len1 += 1;
                            }
                            if pivot >= n {
                                oor += 1;
                            }
                            if !sampled && n == max_n && info.nontrivial {
                                sampled = true;
                                ctx.sample("enumeration", "partition", &c);
                            }
                        }
                        Err(f) => {
                            ctx.violation("partition", &c, &f);
                            return false;
                        }
                    }
                }
            }
            true
        });
        ctx.bulk("enumeration", evals, nontriv, &[("partition:len-1-in-range", len1), ("partition:out-of-range", oor)]);
        if !ok {
            return;
        }
    }
    ctx.exhaustive(format!(
        "partition_mut: all weak-order patterns of length 1..={} x {} x strides {:?}",
        max_n,
        if with_oor { "all in-range positions + 5 out-of-range positions" } else { "all pivot positions" },
        STRIDES.iter().map(|s| s.0).collect::<Vec<_>>()
    ));
}

/// C02 / C16 exhaustive single selection: every weak-order pattern × every index
/// (`oor`: the out-of-range positions instead) × every pivot sequence.
fn enum_select(ctx: &Ctx, min_n: usize, max_n: usize, oor: bool, small_in_range_only: bool) {
    let mut item = 0u64;
    let mut total_seq = 0u64;
    for n in min_n..=max_n {
        let mut evals = 0u64;
        let mut nontriv = 0u64;
        let mut pats = 0u64;
        let mut sampled = false;
        let ok = weak_orders(n, &mut |pat| {
            item += 1;
            if !ctx.mine(item) {
                return true;
            }
            pats += 1;
            let values: Vec<i64> = pat.iter().map(|&x| x as i64).collect();
            let indexes: Vec<usize> = if oor {
                vec![n, n + 1, 2 * n + 3, usize::MAX / 2, usize::MAX]
            } else if small_in_range_only && n > 2 {
                vec![]
            } else {
                (0..n).collect()
            };
            for &index in &indexes {
                let r = dfs_pivots(|prefix| {
                    let c = SelCase { values: values.clone(), index, stride: 1, offset: 0, pivots: Pivots::Explicit(prefix.to_vec()) };
                    match guarded(&check_select, &c) {
                        Ok(info) => {
                            evals += 1;
                            if info.nontrivial {
                                nontriv += 1;
                            }
                            if !sampled && n == max_n && prefix.len() >= 1 {
                                sampled = true;
                                ctx.sample("enumeration+pivot-dfs", "select", &c);
                            }
                            true
                        }
                        Err(f) => {
                            ctx.violation("select", &c, &f);
                            false
                        }
                    }
                });
                match r {
                    Some(k) => total_seq += k,
                    None => return false,
                }
            }
            true
        });
        ctx.bulk(
            "enumeration+pivot-dfs",
            evals,
            nontriv,
            &[(if oor { "select:out-of-range-runs" } else { "select:in-range-runs" }, evals), ("select:patterns", pats)],
        );
        if !ok {
            return;
        }
    }
    let _ = total_seq;
    ctx.exhaustive(format!(
        "get_from_sorted_mut: all weak-order patterns of length {}..={} x {} x ALL pivot sequences (DFS through the pivot hook)",
        min_n,
        max_n,
        if oor { "positions {n, n+1, 2n+3, MAX/2, MAX}" } else { "every in-range index" }
    ));
}

fn subsets_with_oor(n: usize, max_size: usize) -> Vec<Vec<usize>> {
    // every subset of {0..n-1} ∪ {n, n+2, usize::MAX} of size 1..=max_size that contains
    // at least one out-of-range entry
    let mut universe: Vec<usize> = (0..n).collect();
    universe.extend_from_slice(&[n, n + 2, usize::MAX]);
    let m = universe.len();
    let mut out = vec![];
    for mask in 1u32..(1 << m) {
        let sz = mask.count_ones() as usize;
        if sz > max_size {
            continue;
        }
        let s: Vec<usize> = (0..m).filter(|&b| mask >> b & 1 == 1).map(|b| universe[b]).collect();
        if s.iter().any(|&i| i >= n) {
            out.push(s);
        }
    }
    out
}

/// Deterministic "generated order with generated repeats" for an index subset.
fn scramble(subset: &[usize], salt: u64) -> Vec<usize> {
    let mut v = subset.to_vec();
    let h = splitmix64(salt);
    match h % 4 {
        0 => {}
        1 => v.reverse(),
        2 => {
            v.reverse();
            let x = v[(h >> 8) as usize % v.len()];
            v.push(x);
        }
        _ => {
            let k = (h >> 8) as usize % v.len();
            v.rotate_left(k);
            let x = v[0];
            v.insert(v.len() / 2, x);
        }
    }
    v
}

/// C02 / C16 exhaustive bulk selection.
fn enum_bulk(ctx: &Ctx, min_n: usize, max_n: usize, oor: bool) {
    let mut item = 0u64;
    for n in min_n..=max_n {
        let mut evals = 0u64;
        let mut nontriv = 0u64;
        let mut sampled = false;
        let subsets: Vec<Vec<usize>> = if oor {
            subsets_with_oor(n, 4)
        } else {
            (1u32..(1 << n)).map(|mask| (0..n).filter(|&b| mask >> b & 1 == 1).collect()).collect()
        };
        let ok = weak_orders(n, &mut |pat| {
            item += 1;
            if !ctx.mine(item) {
                return true;
            }
            let values: Vec<i64> = pat.iter().map(|&x| x as i64).collect();
            for (si, subset) in subsets.iter().enumerate() {
                let indexes = scramble(subset, item * 1000 + si as u64);
                let r = dfs_pivots(|prefix| {
                    let c = BulkCase { values: values.clone(), indexes: indexes.clone(), stride: 1, offset: 0, pivots: Pivots::Explicit(prefix.to_vec()) };
                    match guarded(&check_bulk, &c) {
                        Ok(info) => {
                            evals += 1;
                            if info.nontrivial {
                                nontriv += 1;
                            }
                            if !sampled && n == max_n && prefix.len() >= 2 {
                                sampled = true;
                                ctx.sample("enumeration+pivot-dfs", "bulk", &c);
                            }
                            true
                        }
                        Err(f) => {
                            ctx.violation("bulk", &c, &f);
                            false
                        }
                    }
                });
                if r.is_none() {
                    return false;
                }
            }
            true
        });
        ctx.bulk("enumeration+pivot-dfs", evals, nontriv, &[(if oor { "bulk:out-of-range-runs" } else { "bulk:in-range-runs" }, evals)]);
        if !ok {
            return;
        }
    }
    // the empty array with out-of-range requests
    ctx.exhaustive(format!(
        "get_many_from_sorted_mut: all weak-order patterns of length {}..={} x {} x ALL pivot sequences",
        min_n,
        max_n,
        if oor { "every subset (size<=4) of {0..n-1,n,n+2,MAX} containing an out-of-range entry" } else { "every non-empty index subset (scrambled order, repeats)" }
    ));
}

// ---------------------------------------------------------------------------------------
// property runners

pub fn run_c15(ctx: &Ctx) {
    let t = ctx.tier();
    enum_partition(ctx, t.pick(8, 9), false, false);
    ctx.run_proptest("partition", t.pick(20_000, 1_000_000), part_strategy(t.pick(60, 500)), &check_partition);
}

pub fn run_c02(ctx: &Ctx) {
    let t = ctx.tier();
    enum_select(ctx, 1, t.pick(7, 8), false, false);
    if ctx.stopped() {
        return;
    }
    enum_bulk(ctx, 1, t.pick(6, 6), false);
    ctx.run_proptest("select", t.pick(20_000, 600_000), sel_strategy(t.pick(80, 300), 0), &check_select);
    ctx.run_proptest("bulk", t.pick(20_000, 600_000), bulk_strategy(t.pick(80, 300), 0), &check_bulk);
    ctx.run_proptest("select-wide", t.pick(8_000, 200_000), sel_strategy(t.pick(60, 200), 0), &check_select_wide);
    ctx.run_proptest("bulk-wide", t.pick(8_000, 200_000), bulk_strategy(t.pick(60, 200), 0), &check_bulk_wide);
    // long arrays: regimes a blocked / thresholded implementation only enters beyond a few hundred elements
    ctx.run_proptest("select-long", t.pick(1_200, 40_000), sel_long_strategy(t.pick(5_000, 9_000)), &check_select);
    ctx.run_proptest("bulk-long", t.pick(1_600, 60_000), bulk_long_strategy(t.pick(5_000, 9_000)), &check_bulk);
}

pub fn run_c16(ctx: &Ctx) {
    let t = ctx.tier();
    // out-of-range direction, every pivot sequence
    enum_select(ctx, 0, t.pick(7, 8), true, false);
    if ctx.stopped() {
        return;
    }
    enum_bulk(ctx, 0, t.pick(6, 7), true);
    if ctx.stopped() {
        return;
    }
    enum_partition(ctx, t.pick(7, 8), true, true);
    if ctx.stopped() {
        return;
    }
    // in-range direction on short arrays (length <= 2 counts as non-trivial), every pivot sequence
    enum_select(ctx, 1, t.pick(5, 6), false, false);
    enum_bulk(ctx, 1, t.pick(4, 5), false);
    // the empty array: partition / selection at 0
    for c in [PartCase { values: vec![], pivot: 0, stride: 1, offset: 0, elem: 0 }, PartCase { values: vec![], pivot: usize::MAX, stride: 1, offset: 1, elem: 1 }] {
        if !ctx.enum_case("partition", &c, &check_partition) {
            return;
        }
    }
    ctx.run_proptest("select", t.pick(20_000, 400_000), sel_strategy(t.pick(40, 200), 50), &check_select);
    ctx.run_proptest("bulk", t.pick(20_000, 400_000), bulk_strategy(t.pick(40, 200), 50), &check_bulk);
    ctx.run_proptest("partition", t.pick(10_000, 200_000), part_strategy(t.pick(40, 200)), &check_partition);
    ctx.run_proptest("bins-index", t.pick(20_000, 400_000), bins_index_strategy(), &check_bins_index);
}

pub fn replayers() -> Vec<(&'static str, ReplayFn)> {
    vec![
        ("partition", |v| replay_with::<PartCase>(v, &check_partition)),
        ("select", |v| replay_with::<SelCase>(v, &check_select)),
        ("bulk", |v| replay_with::<BulkCase>(v, &check_bulk)),
        ("bins-index", |v| replay_with::<BinsIndexCase>(v, &check_bins_index)),
        ("select-wide", |v| replay_with::<SelCase>(v, &check_select_wide)),
        ("bulk-wide", |v| replay_with::<BulkCase>(v, &check_bulk_wide)),
        ("select-long", |v| replay_with::<SelCase>(v, &check_select)),
        ("bulk-long", |v| replay_with::<BulkCase>(v, &check_bulk)),
    ]
}

#[allow(dead_code)]
fn _unused(_: Array1<i64>) {}
