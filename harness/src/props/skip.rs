//! C14 (NaN-skipping operations equal the plain operation on the data without NaNs),
//! the n-D lane checker of C04, and C03 (in-place routines only permute their lanes),
//! which re-uses the mutating checkers of C01/C02/C04/C14/C15 with its own rule.

use crate::core::*;
use crate::gen::Ty;
use crate::layout::*;
use crate::props::nan::*;
use crate::props::quant::{check_quant, qcase_strategy, QCase};
use crate::props::sel;
use crate::qoracle::*;
use crate::{dispatch_nan, ensure, fail};
use ndarray::{ArrayD, ArrayViewD, Axis, Ix1, Ix2, Ix3};
use ndarray_stats::interpolate::{Higher, Interpolate, Linear, Lower, Midpoint, Nearest};
use ndarray_stats::{MaybeNan, MaybeNanExt, QuantileExt};
use noisy_float::types::N64;
use proptest::prelude::*;
use serde::{Deserialize, Serialize};

/// Element types of the skip-NaN checks: value as seen by the quantile oracle.
pub trait SkipEl: NanEl
where
    Self::NotNan: Ord + Clone + num_traits::NumOps + num_traits::FromPrimitive + num_traits::ToPrimitive,
{
    const QTY: Ty;
    fn val(&self) -> Option<Val>;
}

impl SkipEl for f64 {
    const QTY: Ty = Ty::N64;
    fn val(&self) -> Option<Val> {
        if self.is_missing() {
            None
        } else {
            Some(Val::F(*self))
        }
    }
}
impl SkipEl for f32 {
    const QTY: Ty = Ty::N32;
    fn val(&self) -> Option<Val> {
        if self.is_missing() {
            None
        } else {
            Some(Val::F(*self as f64))
        }
    }
}
impl SkipEl for Option<i32> {
    const QTY: Ty = Ty::I32;
    fn val(&self) -> Option<Val> {
        self.map(|v| Val::I(v as i128))
    }
}
impl SkipEl for Option<u8> {
    const QTY: Ty = Ty::U8;
    fn val(&self) -> Option<Val> {
        self.map(|v| Val::I(v as i128))
    }
}
impl SkipEl for Option<i64> {
    const QTY: Ty = Ty::I64;
    fn val(&self) -> Option<Val> {
        self.map(|v| Val::I(v as i128))
    }
}
impl SkipEl for Option<N64> {
    const QTY: Ty = Ty::N64;
    fn val(&self) -> Option<Val> {
        self.map(|v| Val::F(v.raw()))
    }
}

#[derive(Clone, Copy, Debug, Serialize, Deserialize, Hash, PartialEq, Eq)]
pub enum SkipTy {
    F32,
    F64,
    OI32,
    OU8,
    OI64,
    ON64,
}

pub const SKIP_TYPES: [SkipTy; 6] = [SkipTy::F32, SkipTy::F64, SkipTy::OI32, SkipTy::OU8, SkipTy::OI64, SkipTy::ON64];

macro_rules! dispatch_skip {
    ($ty:expr, $f:ident ( $($args:expr),* )) => {
        match $ty {
            SkipTy::F32 => $f::<f32>($($args),*),
            SkipTy::F64 => $f::<f64>($($args),*),
            SkipTy::OI32 => $f::<Option<i32>>($($args),*),
            SkipTy::OU8 => $f::<Option<u8>>($($args),*),
            SkipTy::OI64 => $f::<Option<i64>>($($args),*),
            SkipTy::ON64 => $f::<Option<N64>>($($args),*),
        }
    };
}

#[derive(Clone, Debug, Serialize, Deserialize, Hash)]
pub struct SkipCase {
    pub ty: SkipTy,
    pub shape: Vec<usize>,
    pub layout: LayoutSpec,
    pub axis: usize,
    /// logical row-major: element i is make(vals[i]) unless mask[i]
    pub vals: Vec<i16>,
    pub mask: Vec<bool>,
    pub q: QSpec,
    pub strat: Strat,
    pub pivots: Pivots,
}

fn skip_data<T: NanEl>(c: &SkipCase) -> Vec<T> {
    c.vals.iter().zip(&c.mask).enumerate().map(|(i, (&v, &m))| if m { T::missing(i as u8) } else { T::make(v as i64) }).collect()
}

fn call_skip_quant<T>(v: ndarray::ArrayViewMutD<'_, T>, axis: usize, q: N64, strat: Strat) -> Result<ArrayD<T>, ndarray_stats::errors::QuantileError>
where
    T: SkipEl,
    T::NotNan: Ord + Clone + num_traits::NumOps + num_traits::FromPrimitive + num_traits::ToPrimitive,
{
    fn go<T, I>(mut v: ndarray::ArrayViewMutD<'_, T>, axis: usize, q: N64, i: &I) -> Result<ArrayD<T>, ndarray_stats::errors::QuantileError>
    where
        T: MaybeNan,
        T::NotNan: Clone + Ord,
        I: Interpolate<T::NotNan>,
    {
        v.quantile_axis_skipnan_mut(Axis(axis), q, i)
    }
    match strat {
        Strat::Lower => go(v, axis, q, &Lower),
        Strat::Higher => go(v, axis, q, &Higher),
        Strat::Nearest => go(v, axis, q, &Nearest),
        Strat::Midpoint => go(v, axis, q, &Midpoint),
        Strat::Linear => go(v, axis, q, &Linear),
    }
}

fn pattern_to_vec1(p: usize) -> Vec<usize> {
    vec![p]
}

fn arg_forms<T>(v: &ArrayViewD<'_, T>) -> (Result<Vec<usize>, ()>, Result<Vec<usize>, ()>)
where
    T: SkipEl,
    T::NotNan: Ord + Clone + num_traits::NumOps + num_traits::FromPrimitive + num_traits::ToPrimitive,
{
    match v.ndim() {
        1 => {
            let w = v.view().into_dimensionality::<Ix1>().unwrap();
            (w.argmin_skipnan().map(pattern_to_vec1).map_err(|_| ()), w.argmax_skipnan().map(pattern_to_vec1).map_err(|_| ()))
        }
        2 => {
            let w = v.view().into_dimensionality::<Ix2>().unwrap();
            (w.argmin_skipnan().map(|p| vec![p.0, p.1]).map_err(|_| ()), w.argmax_skipnan().map(|p| vec![p.0, p.1]).map_err(|_| ()))
        }
        3 => {
            let w = v.view().into_dimensionality::<Ix3>().unwrap();
            (w.argmin_skipnan().map(|p| vec![p.0, p.1, p.2]).map_err(|_| ()), w.argmax_skipnan().map(|p| vec![p.0, p.1, p.2]).map_err(|_| ()))
        }
        _ => {
            use ndarray::Dimension;
            (v.argmin_skipnan().map(|p| p.slice().to_vec()).map_err(|_| ()), v.argmax_skipnan().map(|p| p.slice().to_vec()).map_err(|_| ()))
        }
    }
}

fn flat_index(shape: &[usize], idx: &[usize]) -> Option<usize> {
    if idx.len() != shape.len() {
        return None;
    }
    let mut f = 0usize;
    for (k, &i) in idx.iter().enumerate() {
        if i >= shape[k] {
            return None;
        }
        f = f * shape[k] + i;
    }
    Some(f)
}

pub fn check_skip_t<T>(c: &SkipCase) -> CheckResult
where
    T: SkipEl,
    T::NotNan: Ord + Clone + num_traits::NumOps + num_traits::FromPrimitive + num_traits::ToPrimitive,
{
    let total: usize = c.shape.iter().product();
    if c.vals.len() != total || c.mask.len() != total || c.axis >= c.shape.len() {
        return Ok(Info::discarded());
    }
    let n = c.shape[c.axis];
    let data: Vec<T> = skip_data(c);
    let present: Vec<Val> = data.iter().filter_map(|d| d.val()).collect();
    let lanes_idx = lane_indexes(&c.shape, c.axis);
    let q = c.q.resolve(n.max(1));
    // D5 routing for the quantile part
    let mut lane_sorted: Vec<Vec<Val>> = vec![];
    for idx in &lanes_idx {
        let mut s: Vec<Val> = idx.iter().filter_map(|&i| data[i].val()).collect();
        sort_vals(&mut s);
        lane_sorted.push(s);
    }
    if !strict() && lane_sorted.iter().any(|s| !s.is_empty() && lane_hits_d5(T::QTY, c.strat, s, q)) {
        return Ok(Info::excluded());
    }

    let laid = Laid::new(&c.layout, &c.shape, &data);
    let v = laid.view();

    // --- value forms
    let (mn, mx) = match catch(|| (v.min_skipnan().clone(), v.max_skipnan().clone())) {
        Ok(r) => r,
        Err(p) => fail!("panic", "min_skipnan/max_skipnan panicked: {}", p),
    };
    if present.is_empty() {
        ensure!(mn.is_missing() && mx.is_missing(), "wrong-value", "no non-missing element, but min_skipnan = {:?}, max_skipnan = {:?} (expected the missing value)", mn, mx);
    } else {
        let mut s = present.clone();
        sort_vals(&mut s);
        ensure!(mn.val().map(|x| x.eqv(&s[0])).unwrap_or(false), "wrong-value", "min_skipnan = {:?}, minimum of the non-missing data is {:?} (data {:?})", mn, s[0], data);
        ensure!(mx.val().map(|x| x.eqv(&s[s.len() - 1])).unwrap_or(false), "wrong-value", "max_skipnan = {:?}, maximum of the non-missing data is {:?} (data {:?})", mx, s[s.len() - 1], data);
    }
    // --- index forms
    let (amin, amax) = match catch(|| arg_forms(&v)) {
        Ok(r) => r,
        Err(p) => fail!("panic", "argmin_skipnan/argmax_skipnan panicked: {}", p),
    };
    if present.is_empty() {
        ensure!(amin.is_err() && amax.is_err(), "error-kind", "no non-missing element, but argmin_skipnan = {:?}, argmax_skipnan = {:?} (expected EmptyInput)", amin, amax);
    } else {
        let mut s = present.clone();
        sort_vals(&mut s);
        for (name, r, want) in [("argmin_skipnan", &amin, s[0]), ("argmax_skipnan", &amax, s[s.len() - 1])] {
            let idx = match r {
                Ok(i) => i,
                Err(()) => fail!("error-kind", "{} returned EmptyInput although non-missing elements exist (data {:?})", name, data),
            };
            let f = match flat_index(&c.shape, idx) {
                Some(f) => f,
                None => fail!("wrong-value", "{} returned index {:?} outside shape {:?}", name, idx, c.shape),
            };
            ensure!(
                data[f].val().map(|x| x.eqv(&want)).unwrap_or(false),
                "wrong-value",
                "{} returned index {:?} holding {:?}, the extremum of the non-missing data is {:?} (data {:?}, shape {:?})",
                name,
                idx,
                data[f],
                want,
                data,
                c.shape
            );
        }
    }
    // --- folds and visits
    {
        let want_ms = multiset(data.iter().filter(|d| !d.is_missing()).cloned());
        let mut seen: Vec<(u8, u128)> = vec![];
        let init_marker = 7usize;
        let r = v.fold_skipnan(init_marker, |acc, nn| {
            seen.push(T::from_not_nan_ref_opt(Some(nn)).bits());
            acc + 1
        });
        ensure!(r == init_marker + want_ms.len(), "wrong-value", "fold_skipnan with init {} visited {} elements, returned {} (expected init + count = {})", init_marker, seen.len(), r, init_marker + want_ms.len());
        seen.sort_unstable();
        ensure!(seen == want_ms, "wrong-value", "fold_skipnan saw {:?}, the non-missing data is {:?}", seen, want_ms);
        let mut seen2: Vec<(u8, u128)> = vec![];
        v.visit_skipnan(|nn| seen2.push(T::from_not_nan_ref_opt(Some(nn)).bits()));
        seen2.sort_unstable();
        ensure!(seen2 == want_ms, "wrong-value", "visit_skipnan saw {:?}, the non-missing data is {:?}", seen2, want_ms);
        // indexed fold: (index, value) pairs, each exactly once
        let mut pairs: Vec<(usize, (u8, u128))> = vec![];
        match v.ndim() {
            1 => {
                let w = v.view().into_dimensionality::<Ix1>().unwrap();
                w.indexed_fold_skipnan((), |_, (i, nn)| pairs.push((i, T::from_not_nan_ref_opt(Some(nn)).bits())));
            }
            2 => {
                let w = v.view().into_dimensionality::<Ix2>().unwrap();
                let s1 = c.shape[1];
                w.indexed_fold_skipnan((), |_, (i, nn)| pairs.push((i.0 * s1 + i.1, T::from_not_nan_ref_opt(Some(nn)).bits())));
            }
            _ => {
                use ndarray::Dimension;
                let shape = c.shape.clone();
                v.indexed_fold_skipnan((), |_, (i, nn)| pairs.push((flat_index(&shape, i.slice()).unwrap_or(usize::MAX), T::from_not_nan_ref_opt(Some(nn)).bits())));
            }
        }
        pairs.sort_unstable();
        let want_pairs: Vec<(usize, (u8, u128))> = data.iter().enumerate().filter(|(_, d)| !d.is_missing()).map(|(i, d)| (i, d.bits())).collect();
        ensure!(pairs == want_pairs, "wrong-value", "indexed_fold_skipnan saw (flat index, value) pairs {:?}, expected {:?}", pairs, want_pairs);
        // per-axis fold
        let mut want_shape = c.shape.clone();
        want_shape.remove(c.axis);
        if n <= 64 {
            let folded = v.fold_axis_skipnan(Axis(c.axis), Vec::<(u8, u128)>::new(), |acc, nn| {
                let mut a = acc.clone();
                a.push(T::from_not_nan_ref_opt(Some(nn)).bits());
                a
            });
            ensure!(folded.shape() == &want_shape[..], "shape", "fold_axis_skipnan result has shape {:?}, expected {:?}", folded.shape(), want_shape);
            for (l, (got, idx)) in folded.iter().zip(&lanes_idx).enumerate() {
                let mut g = got.clone();
                g.sort_unstable();
                let w = multiset(idx.iter().filter(|&&i| !data[i].is_missing()).map(|&i| data[i].clone()));
                ensure!(g == w, "wrong-value", "fold_axis_skipnan lane {} saw {:?}, the lane's non-missing data is {:?}", l, g, w);
            }
        } else {
            // long lanes: an order-independent digest (count, sum and sum of squares of a mixed
            // hash of each element) instead of a cloned vector per step
            fn mix(b: (u8, u128)) -> u64 {
                let mut z = (b.1 as u64) ^ ((b.1 >> 64) as u64).rotate_left(29) ^ ((b.0 as u64) << 56);
                z = z.wrapping_add(0x9e37_79b9_7f4a_7c15);
                z = (z ^ (z >> 30)).wrapping_mul(0xbf58_476d_1ce4_e5b9);
                z = (z ^ (z >> 27)).wrapping_mul(0x94d0_49bb_1331_11eb);
                z ^ (z >> 31)
            }
            let step = |acc: &(u64, u64, u64), b: (u8, u128)| {
                let h = mix(b);
                (acc.0 + 1, acc.1.wrapping_add(h), acc.2.wrapping_add(h.wrapping_mul(h)))
            };
            let folded = v.fold_axis_skipnan(Axis(c.axis), (0u64, 0u64, 0u64), |acc, nn| step(acc, T::from_not_nan_ref_opt(Some(nn)).bits()));
            ensure!(folded.shape() == &want_shape[..], "shape", "fold_axis_skipnan result has shape {:?}, expected {:?}", folded.shape(), want_shape);
            for (l, (got, idx)) in folded.iter().zip(&lanes_idx).enumerate() {
                let mut w = (0u64, 0u64, 0u64);
                for &i in idx.iter().filter(|&&i| !data[i].is_missing()) {
                    w = step(&w, data[i].bits());
                }
                ensure!(*got == w, "wrong-value", "fold_axis_skipnan lane {} visited {} elements with digest ({:x}, {:x}); the lane's {} non-missing elements have digest ({:x}, {:x})", l, got.0, got.1, got.2, w.0, w.1, w.2);
            }
        }
    }
    // --- per-lane map (mutating): closure records what it is given
    {
        let mut laid2 = Laid::new(&c.layout, &c.shape, &data);
        let mut seen_lanes: Vec<Vec<(u8, u128)>> = vec![];
        let lens = {
            let mut vm = laid2.view_mut();
            match catch(|| {
                vm.map_axis_skipnan_mut(Axis(c.axis), |lane| {
                    let mut ms: Vec<(u8, u128)> = lane.iter().map(|nn| T::from_not_nan_ref_opt(Some(nn)).bits()).collect();
                    ms.sort_unstable();
                    let n = ms.len();
                    seen_lanes.push(ms);
                    n
                })
            }) {
                Ok(r) => r,
                Err(p) => fail!("panic", "map_axis_skipnan_mut panicked: {}", p),
            }
        };
        let mut want_shape = c.shape.clone();
        want_shape.remove(c.axis);
        ensure!(lens.shape() == &want_shape[..], "shape", "map_axis_skipnan_mut result has shape {:?}, expected {:?}", lens.shape(), want_shape);
        // lanes are visited in arbitrary order: compare as multisets of lanes, and the
        // returned lengths by position
        let mut want_lanes: Vec<Vec<(u8, u128)>> = lanes_idx.iter().map(|idx| multiset(idx.iter().filter(|&&i| !data[i].is_missing()).map(|&i| data[i].clone()))).collect();
        for (l, (got_len, w)) in lens.iter().zip(&want_lanes).enumerate() {
            ensure!(*got_len == w.len(), "wrong-value", "map_axis_skipnan_mut handed a lane of {} elements to the closure for lane {}, which has {} non-missing elements", got_len, l, w.len());
        }
        let mut got_sorted = seen_lanes.clone();
        got_sorted.sort();
        want_lanes.sort();
        ensure!(got_sorted == want_lanes, "wrong-value", "map_axis_skipnan_mut: the lanes handed to the closure {:?} are not the NaN-stripped lanes {:?}", got_sorted, want_lanes);
        let after = laid2.logical();
        if let Err(e) = lanes_preserved(&data, &after, &c.shape, c.axis) {
            fail!("multiset", "map_axis_skipnan_mut: {}", e);
        }
        if let Err(e) = laid2.guards_intact() {
            fail!("guard", "map_axis_skipnan_mut: {}", e);
        }
    }
    // --- skip-NaN quantile
    if n > 0 {
        let mut laid3 = Laid::new(&c.layout, &c.shape, &data);
        c.pivots.install();
        let r = {
            let vm = laid3.view_mut();
            catch(|| call_skip_quant::<T>(vm, c.axis, N64::unchecked_new(q), c.strat))
        };
        Pivots::uninstall();
        let res = match r {
            Err(p) => fail!("panic", "quantile_axis_skipnan_mut panicked: {} (q {:e}, {:?})", p, q, c.strat),
            Ok(Err(e)) => fail!("error-kind", "quantile_axis_skipnan_mut returned Err({:?}) for a non-empty axis and q = {:e}", e, q),
            Ok(Ok(a)) => a,
        };
        let mut want_shape = c.shape.clone();
        want_shape.remove(c.axis);
        ensure!(res.shape() == &want_shape[..], "shape", "quantile_axis_skipnan_mut result has shape {:?}, expected {:?}", res.shape(), want_shape);
        for (l, (got, sorted)) in res.iter().zip(&lane_sorted).enumerate() {
            if sorted.is_empty() {
                ensure!(got.is_missing(), "wrong-value", "lane {} has no non-missing element but its skip-NaN quantile is {:?}", l, got);
            } else {
                let r = match got.val() {
                    Some(r) => r,
                    None => fail!("wrong-value", "lane {} (non-missing, sorted: {:?}) has a missing skip-NaN quantile", l, sorted),
                };
                match judge(T::QTY, c.strat, sorted, q, r, strict()) {
                    Verdict::Ok => {}
                    Verdict::Known => return Ok(Info::excluded()),
                    Verdict::Bad(why) => fail!(
                        "wrong-value",
                        "{:?} skip-NaN quantile q={:e} of lane {} (non-missing, sorted: {:?}) is {:?}: {} (shape {:?}, axis {}, layout {:?})",
                        c.strat,
                        q,
                        l,
                        sorted,
                        r,
                        why,
                        c.shape,
                        c.axis,
                        c.layout
                    ),
                }
            }
        }
        let after = laid3.logical();
        if let Err(e) = lanes_preserved(&data, &after, &c.shape, c.axis) {
            fail!("multiset", "quantile_axis_skipnan_mut: {}", e);
        }
        if let Err(e) = laid3.guards_intact() {
            fail!("guard", "quantile_axis_skipnan_mut: {}", e);
        }
    }
    let n_missing = c.mask.iter().filter(|m| **m).count();
    let some = n_missing > 0 && n_missing < total;
    let contiguous_axis = c.layout.is_c() && c.axis + 1 == c.shape.len();
    let all_missing_lane = lane_sorted.iter().any(|s| s.is_empty()) && n > 0;
    Ok(Info::new(some && n >= 3 && (!contiguous_axis || !c.layout.is_c()))
        .class(c.layout.class())
        .class(c.strat.class())
        .class_if(all_missing_lane, "lane:all-missing")
        .class_if(n_missing == 0, "mask:none")
        .class_if(n_missing == total && total > 0, "mask:all")
        .class_if(!contiguous_axis, "axis:non-contiguous")
        .class_if(n >= 512, "lane>=512")
        .class_if(matches!(c.ty, SkipTy::F32 | SkipTy::F64), "type:float")
        .class_if(!matches!(c.ty, SkipTy::F32 | SkipTy::F64), "type:option"))
}

pub fn check_skip(c: &SkipCase) -> CheckResult {
    dispatch_skip!(c.ty, check_skip_t(c))
}

pub fn skip_strategy(max_lane: usize) -> impl Strategy<Value = SkipCase> {
    (proptest::sample::select(SKIP_TYPES.to_vec()), 1usize..=3)
        .prop_flat_map(move |(ty, nd)| (Just(ty), shape_strategy_local(nd, if nd == 1 { max_lane } else { 8 }, 160), 0..nd, layout_strategy(nd)))
        .prop_flat_map(|(ty, shape, axis, layout)| {
            let total: usize = shape.iter().product();
            let mask = prop_oneof![
                4 => proptest::collection::vec(proptest::bool::weighted(0.3), total),
                1 => proptest::collection::vec(Just(false), total),
                1 => proptest::collection::vec(Just(true), total),
                1 => proptest::collection::vec(proptest::bool::weighted(0.85), total),
                1 => Just((0..total).map(|i| i == 0).collect::<Vec<bool>>()),
                1 => Just((0..total).map(|i| i + 1 == total).collect::<Vec<bool>>()),
                1 => Just((0..total).map(|i| i % 2 == 0).collect::<Vec<bool>>()),
            ];
            let vals = prop_oneof![
                3 => proptest::collection::vec(0i16..4, total),
                3 => proptest::collection::vec(-100i16..100, total),
                2 => proptest::collection::vec(any::<i16>(), total),
                // +-infinity (97/-97) and -0.0 (96) for the float types
                2 => proptest::collection::vec(prop_oneof![6 => -5i16..6, 1 => Just(97i16), 1 => Just(-97i16), 1 => Just(96i16), 1 => Just(0i16)], total),
            ];
            (Just((ty, shape, axis, layout)), vals, mask, qspec_strategy(), strat_strategy(), pivots_strategy())
        })
        .prop_map(|((ty, mut shape, axis, layout), mut vals, mut mask, q, strat, pivots)| {
            // occasionally a zero-length axis other than the reduced one
            if shape.len() >= 2 && !vals.is_empty() && (vals[0] as i32).rem_euclid(17) == 0 {
                let k = (axis + 1) % shape.len();
                shape[k] = 0;
                vals.clear();
                mask.clear();
            }
            SkipCase { ty, shape, layout, axis, vals, mask, q, strat, pivots }
        })
}

/// Long lanes for the skip-NaN routines: missing values confined to the tail / head of a
/// lane, long runs of missing values next to a present end element, sparse / dense masks.
pub fn skip_long_strategy(max_lane: usize) -> impl Strategy<Value = SkipCase> {
    (proptest::sample::select(SKIP_TYPES.to_vec()), crate::gen::long_len(300, max_lane), 1usize..=3, 0usize..3, any::<u64>(), 0u8..10, any::<u16>())
        .prop_flat_map(|(ty, lane, others, place, seed, class, k)| {
            let (shape, axis) = match place {
                0 => (vec![lane], 0),
                1 => (vec![lane, others], 0),
                _ => (vec![others, lane], 1),
            };
            let total: usize = shape.iter().product();
            let mut next = crate::gen::splitmix(seed);
            let vals: Vec<i16> = (0..total)
                .map(|_| match class % 3 {
                    0 => (next() % 4) as i16,
                    1 => (next() % 200) as i16 - 100,
                    _ => next() as i16,
                })
                .collect();
            let mut mask = vec![false; total];
            let k = k as usize;
            for (l, idx) in lane_indexes(&shape, axis).iter().enumerate() {
                let n = idx.len();
                // the lanes of one array get neighbouring classes
                match (class as usize + l) % 10 {
                    0 => {
                        let t = 1 + k % 130;
                        for i in n - t.min(n)..n {
                            mask[idx[i]] = true;
                        }
                    }
                    1 => {
                        let t = 1 + k % 130;
                        for i in 0..t.min(n) {
                            mask[idx[i]] = true;
                        }
                    }
                    2 => {
                        let r = (500 + k % 700).min(n - 1);
                        for i in n - 1 - r..n - 1 {
                            mask[idx[i]] = true;
                        }
                    }
                    3 => {
                        let r = (500 + k % 700).min(n - 1);
                        for i in 1..=r {
                            mask[idx[i]] = true;
                        }
                    }
                    4 => {
                        for i in 0..n {
                            mask[idx[i]] = true;
                        }
                        mask[idx[if k % 2 == 0 { n - 1 } else { k % n }]] = false;
                    }
                    5 => mask[idx[k % n]] = true,
                    6 => {
                        for i in 0..n {
                            mask[idx[i]] = next() % 10 == 0;
                        }
                    }
                    7 => {
                        for i in 0..n {
                            mask[idx[i]] = next() % 10 != 0;
                        }
                    }
                    8 => {}
                    _ => {
                        let t = 1 + (k * n >> 16);
                        for i in n - t.min(n)..n {
                            mask[idx[i]] = true;
                        }
                    }
                }
            }
            let nd = shape.len();
            (Just((ty, shape, axis, vals, mask)), layout_strategy(nd), qspec_strategy(), strat_strategy(), pivots_strategy())
        })
        .prop_map(|((ty, shape, axis, vals, mask), layout, q, strat, pivots)| SkipCase { ty, shape, layout, axis, vals, mask, q, strat, pivots })
}

// ---------------------------------------------------------------------------------------
// C14 on 128-bit options: differential against the plain quantile of the filtered lane
// (the property's own statement; the quantile oracle's value model stops at 64 bits)

#[derive(Clone, Debug, Serialize, Deserialize, Hash)]
pub struct SkipWideCase {
    pub unsigned: bool,
    pub shape: Vec<usize>,
    pub layout: LayoutSpec,
    pub axis: usize,
    /// logical row-major values (u128 values are stored as their i128 bit pattern)
    pub vals: Vec<i128>,
    pub mask: Vec<bool>,
    pub q: QSpec,
    pub strat: Strat,
    pub pivots: Pivots,
}

fn plain_quant_wide<A>(lane: Vec<A>, q: f64, strat: Strat) -> Result<Result<A, ndarray_stats::errors::QuantileError>, String>
where
    A: Ord + Clone + num_traits::NumOps + num_traits::FromPrimitive + num_traits::ToPrimitive + std::panic::UnwindSafe,
{
    let mut a = ndarray::Array1::from(lane);
    let qn = N64::unchecked_new(q);
    catch(move || {
        let r = match strat {
            Strat::Lower => a.quantile_axis_mut(Axis(0), qn, &Lower),
            Strat::Higher => a.quantile_axis_mut(Axis(0), qn, &Higher),
            Strat::Nearest => a.quantile_axis_mut(Axis(0), qn, &Nearest),
            Strat::Midpoint => a.quantile_axis_mut(Axis(0), qn, &Midpoint),
            Strat::Linear => a.quantile_axis_mut(Axis(0), qn, &Linear),
        };
        r.map(|x| x.into_scalar())
    })
}

fn skip_quant_wide<A>(v: ndarray::ArrayViewMutD<'_, Option<A>>, axis: usize, q: f64, strat: Strat) -> Result<ArrayD<Option<A>>, ndarray_stats::errors::QuantileError>
where
    A: Ord + Clone + num_traits::NumOps + num_traits::FromPrimitive + num_traits::ToPrimitive + Copy,
    Option<A>: MaybeNan,
    <Option<A> as MaybeNan>::NotNan: Ord + Clone + num_traits::NumOps + num_traits::FromPrimitive + num_traits::ToPrimitive,
{
    let mut v = v;
    let qn = N64::unchecked_new(q);
    match strat {
        Strat::Lower => v.quantile_axis_skipnan_mut(Axis(axis), qn, &Lower),
        Strat::Higher => v.quantile_axis_skipnan_mut(Axis(axis), qn, &Higher),
        Strat::Nearest => v.quantile_axis_skipnan_mut(Axis(axis), qn, &Nearest),
        Strat::Midpoint => v.quantile_axis_skipnan_mut(Axis(axis), qn, &Midpoint),
        Strat::Linear => v.quantile_axis_skipnan_mut(Axis(axis), qn, &Linear),
    }
}

macro_rules! skip_wide_impl {
    ($name:ident, $t:ty) => {
        fn $name(c: &SkipWideCase) -> CheckResult {
            let total: usize = c.shape.iter().product();
            if c.vals.len() != total || c.mask.len() != total || c.axis >= c.shape.len() || c.shape[c.axis] == 0 {
                return Ok(Info::discarded());
            }
            let n = c.shape[c.axis];
            let q = c.q.resolve(n);
            let data: Vec<Option<$t>> = c.vals.iter().zip(&c.mask).map(|(&v, &m)| if m { None } else { Some(v as $t) }).collect();
            let lanes_idx = lane_indexes(&c.shape, c.axis);
            // the plain operation on each lane with the missing values deleted
            let mut want: Vec<Option<Result<$t, String>>> = vec![];
            for idx in &lanes_idx {
                let lane: Vec<$t> = idx.iter().filter_map(|&i| data[i]).collect();
                if lane.is_empty() {
                    want.push(None);
                    continue;
                }
                c.pivots.install();
                let r = plain_quant_wide::<$t>(lane, q, c.strat);
                Pivots::uninstall();
                match r {
                    Ok(Ok(x)) => want.push(Some(Ok(x))),
                    Ok(Err(e)) => fail!("error-kind", "plain quantile of a non-empty filtered lane returned Err({:?})", e),
                    Err(p) => want.push(Some(Err(p))),
                }
            }
            let plain_panics = want.iter().any(|w| matches!(w, Some(Err(_))));
            let mut laid = Laid::new(&c.layout, &c.shape, &data);
            c.pivots.install();
            let r = {
                let vm = laid.view_mut();
                catch(|| skip_quant_wide::<$t>(vm, c.axis, q, c.strat))
            };
            Pivots::uninstall();
            let res = match r {
                Err(p) => {
                    if plain_panics {
                        // the plain operation itself does not produce a value here: nothing to compare
                        return Ok(Info::excluded());
                    }
                    fail!("panic", "quantile_axis_skipnan_mut on Option<{}> panicked: {} although the plain quantile of every filtered lane returns a value (q {:e}, {:?}, shape {:?}, axis {})", stringify!($t), p, q, c.strat, c.shape, c.axis)
                }
                Ok(Err(e)) => fail!("error-kind", "quantile_axis_skipnan_mut returned Err({:?}) for a non-empty axis and q = {:e}", e, q),
                Ok(Ok(a)) => a,
            };
            let mut want_shape = c.shape.clone();
            want_shape.remove(c.axis);
            ensure!(res.shape() == &want_shape[..], "shape", "quantile_axis_skipnan_mut result has shape {:?}, expected {:?}", res.shape(), want_shape);
            for (l, (got, w)) in res.iter().zip(&want).enumerate() {
                match w {
                    None => ensure!(got.is_none(), "wrong-value", "lane {} has no non-missing element but its skip-NaN quantile is {:?}", l, got),
                    Some(Ok(x)) => ensure!(*got == Some(*x), "wrong-value", "{:?} skip-NaN quantile q={:e} of lane {} is {:?}, the plain quantile of the lane without its missing values is {} (shape {:?}, axis {})", c.strat, q, l, got, x, c.shape, c.axis),
                    Some(Err(p)) => fail!("wrong-value", "lane {}: the plain quantile of the filtered lane panics ({}), the skip-NaN form returned {:?}", l, p, got),
                }
            }
            let after = laid.logical();
            if let Err(e) = lanes_preserved(&data, &after, &c.shape, c.axis) {
                fail!("multiset", "quantile_axis_skipnan_mut: {}", e);
            }
            if let Err(e) = laid.guards_intact() {
                fail!("guard", "quantile_axis_skipnan_mut: {}", e);
            }
            let n_missing = c.mask.iter().filter(|m| **m).count();
            let big = c.vals.iter().zip(&c.mask).any(|(&v, &m)| !m && ((v as $t) as f64).abs() >= 18446744073709551616.0);
            Ok(Info::new(n_missing > 0 && n_missing < total && n >= 3)
                .class(c.strat.class())
                .class(if c.unsigned { "type:Option<u128>" } else { "type:Option<i128>" })
                .class_if(big, "values-beyond-64-bits"))
        }
    };
}
skip_wide_impl!(check_skip_wide_i, i128);
skip_wide_impl!(check_skip_wide_u, u128);

pub fn check_skip_wide(c: &SkipWideCase) -> CheckResult {
    if c.unsigned {
        check_skip_wide_u(c)
    } else {
        check_skip_wide_i(c)
    }
}

pub fn skip_wide_strategy() -> impl Strategy<Value = SkipWideCase> {
    (any::<bool>(), 1usize..=2)
        .prop_flat_map(|(unsigned, nd)| (Just(unsigned), shape_strategy_local(nd, if nd == 1 { 40 } else { 8 }, 120), 0..nd, layout_strategy(nd)))
        .prop_flat_map(|(unsigned, shape, axis, layout)| {
            let total: usize = shape.iter().product();
            // magnitudes below 2^120: differences and midpoints stay inside the type
            let val = move |(class, m, e, neg): (u8, u64, u32, bool)| -> i128 {
                let x: i128 = match class % 4 {
                    0 => (m % 7) as i128,
                    1 => m as i128,
                    2 => (m as i128) << (e % 56),
                    _ => ((m | 1 << 63) as i128) << (e % 56),
                };
                if neg && !unsigned {
                    -x
                } else {
                    x
                }
            };
            (
                Just((unsigned, shape, axis, layout)),
                proptest::collection::vec((any::<u8>(), any::<u64>(), any::<u32>(), any::<bool>()).prop_map(val), total),
                proptest::collection::vec(proptest::bool::weighted(0.3), total),
                qspec_strategy(),
                strat_strategy(),
                pivots_strategy(),
            )
        })
        .prop_map(|((unsigned, shape, axis, layout), vals, mask, q, strat, pivots)| SkipWideCase { unsigned, shape, layout, axis, vals, mask, q, strat, pivots })
}

fn shape_strategy_local(nd: usize, max_axis: usize, max_total: usize) -> BoxedStrategy<Vec<usize>> {
    crate::gen::shape_strategy(nd, max_axis, max_total, false)
}

// ---------------------------------------------------------------------------------------
// C04: lanes of n-D arrays (all 14 impls), metadata-first

#[derive(Clone, Debug, Serialize, Deserialize, Hash)]
pub struct LanesCase {
    pub ty: NanTy,
    pub shape: Vec<usize>,
    pub layout: LayoutSpec,
    pub axis: usize,
    pub mask: Vec<bool>,
}

pub fn check_lanes_t<T: NanEl>(c: &LanesCase) -> CheckResult {
    let total: usize = c.shape.iter().product();
    if c.mask.len() != total || c.axis >= c.shape.len() {
        return Ok(Info::discarded());
    }
    let data: Vec<T> = c.mask.iter().enumerate().map(|(i, &m)| if m { T::missing(i as u8) } else { T::make((i % 100) as i64 + 1) }).collect();
    let mut laid = Laid::new(&c.layout, &c.shape, &data);
    let size = std::mem::size_of::<T>() as isize;
    let mut failure: Option<Failure> = None;
    let mut strided_lane = false;
    {
        let mut vm = laid.view_mut();
        for (l, lane) in vm.lanes_mut(Axis(c.axis)).into_iter().enumerate() {
            let n = lane.len();
            let addrs: Vec<isize> = (0..n).map(|i| &lane[i] as *const T as isize).collect();
            if n >= 2 && (addrs[1] - addrs[0]) != size {
                strided_lane = true;
            }
            let before = multiset(lane.iter().filter(|d| !d.is_missing()).cloned());
            let (ptr, len, st) = {
                let r = T::remove_nan_mut(lane);
                (r.as_ptr() as isize, r.len(), if r.len() > 1 { r.stride_of(Axis(0)) } else { 0 })
            };
            let mut got_addrs = vec![];
            for i in 0..len as isize {
                let a = ptr + i * st * size;
                if !addrs.contains(&a) {
                    failure = Some(Failure::new("aliasing", format!("lane {} along axis {}: element {} of the stripped view (len {}, stride {}) is not an element of the lane it was made from", l, c.axis, i, len, st)));
                    break;
                }
                if got_addrs.contains(&a) {
                    failure = Some(Failure::new("aliasing", format!("lane {}: stripped view visits an element twice", l)));
                    break;
                }
                got_addrs.push(a);
            }
            if failure.is_some() {
                break;
            }
            // safe to read now: all addresses are elements of the lane
            let got: Vec<T> = got_addrs.iter().map(|&a| unsafe { (*(a as *const T)).clone() }).collect();
            if got.iter().any(|g| g.is_missing()) || multiset(got.iter().cloned()) != before {
                failure = Some(Failure::new("wrong-value", format!("lane {} along axis {}: stripped view holds {:?}, the lane's non-missing elements are {:?}", l, c.axis, got, before)));
                break;
            }
        }
    }
    if let Some(f) = failure {
        return Err(f);
    }
    let after = laid.logical();
    if let Err(e) = lanes_preserved(&data, &after, &c.shape, c.axis) {
        fail!("multiset", "remove_nan_mut over lanes_mut: {}", e);
    }
    if let Err(e) = laid.guards_intact() {
        fail!("guard", "remove_nan_mut over lanes_mut: {}", e);
    }
    let n_missing = c.mask.iter().filter(|m| **m).count();
    Ok(Info::new(n_missing > 0 && n_missing < total && strided_lane).class_if(strided_lane, "lane:strided").class(c.layout.class()))
}

pub fn check_lanes(c: &LanesCase) -> CheckResult {
    dispatch_nan!(c.ty, check_lanes_t(c))
}

pub fn lanes_strategy() -> impl Strategy<Value = LanesCase> {
    (proptest::sample::select(NAN_TYPES.to_vec()), 1usize..=3)
        .prop_flat_map(|(ty, nd)| (Just(ty), shape_strategy_local(nd, if nd == 1 { 30 } else { 7 }, 120), 0..nd, layout_strategy(nd)))
        .prop_flat_map(|(ty, shape, axis, layout)| {
            let total: usize = shape.iter().product();
            (Just((ty, shape, axis, layout)), proptest::collection::vec(proptest::bool::weighted(0.4), total))
        })
        .prop_map(|((ty, shape, axis, layout), mask)| LanesCase { ty, shape, layout, axis, mask })
}

// ---------------------------------------------------------------------------------------
// C03 wrappers: same executions, C03's own non-trivial rule
// (view is a strict subset of its parent and some lane has >= 2 distinct elements)

fn c03_rule(r: CheckResult, has_guard: bool, varied: bool) -> CheckResult {
    r.map(|mut i| {
        if !i.excluded && !i.discarded {
            i.nontrivial = has_guard && varied;
        }
        i
    })
}

pub fn c03_quant(c: &QCase) -> CheckResult {
    let varied = c.data.iter().any(|v| *v != c.data[0]);
    c03_rule(check_quant(c), c.layout.has_guard(&c.shape), varied).map(|i| i.class("entry:quantile(s)_axis_mut/quantile(s)_mut"))
}
pub fn c03_skip(c: &SkipCase) -> CheckResult {
    let varied = c.vals.iter().any(|v| *v != c.vals[0]) || c.mask.iter().any(|m| *m != c.mask[0]);
    c03_rule(check_skip(c), c.layout.has_guard(&c.shape), varied).map(|i| i.class("entry:quantile_axis_skipnan_mut+map_axis_skipnan_mut"))
}
pub fn c03_lanes(c: &LanesCase) -> CheckResult {
    c03_rule(check_lanes(c), c.layout.has_guard(&c.shape), c.mask.iter().any(|m| *m != c.mask[0])).map(|i| i.class("entry:remove_nan_mut(lanes)"))
}
pub fn c03_remove(c: &RemoveCase) -> CheckResult {
    c03_rule(check_remove(c), true, c.mask.len() >= 2).map(|i| i.class("entry:remove_nan_mut"))
}
pub fn c03_partition(c: &sel::PartCase) -> CheckResult {
    if c.pivot >= c.values.len() {
        return Ok(Info::discarded());
    }
    c03_rule(sel::check_partition(c), true, c.values.iter().any(|v| *v != c.values[0])).map(|i| i.class("entry:partition_mut"))
}
pub fn c03_select(c: &sel::SelCase) -> CheckResult {
    if c.index >= c.values.len() {
        return Ok(Info::discarded());
    }
    c03_rule(sel::check_select(c), true, c.values.iter().any(|v| *v != c.values[0])).map(|i| i.class("entry:get_from_sorted_mut"))
}
pub fn c03_bulk(c: &sel::BulkCase) -> CheckResult {
    if c.indexes.iter().any(|&i| i >= c.values.len()) {
        return Ok(Info::discarded());
    }
    c03_rule(sel::check_bulk(c), true, c.values.iter().any(|v| *v != c.values[0])).map(|i| i.class("entry:get_many_from_sorted_mut"))
}

/// In-place routines called on an ArcArray handle or a borrowing CowArray: the sibling handle /
/// the borrowed source must stay untouched, the handle itself must hold the same multiset.
#[derive(Clone, Debug, Serialize, Deserialize, Hash)]
pub struct SharedCase {
    pub values: Vec<i64>,
    /// 0 partition_mut, 1 get_from_sorted_mut, 2 get_many_from_sorted_mut, 3 quantile_mut, 4 quantile_axis_mut (2-D)
    pub op: u8,
    pub arg: u16,
    /// 0 ArcArray clone, 1 CowArray borrowing a view
    pub kind: u8,
    pub cols: usize,
    pub pivots: Pivots,
}

pub fn check_shared(c: &SharedCase) -> CheckResult {
    use ndarray::{Array1, Array2, CowArray};
    use ndarray_stats::{Quantile1dExt, Sort1dExt};
    let n = c.values.len();
    if n == 0 {
        return Ok(Info::discarded());
    }
    let pos = (c.arg as usize * n) >> 16;
    let q = N64::unchecked_new((c.arg as f64) / 65535.0);
    let original = c.values.clone();
    c.pivots.install();
    let outcome: Result<(Vec<i64>, Vec<i64>), String> = catch(|| {
        if c.op % 5 == 4 {
            let cols = c.cols.max(1).min(n);
            let rows = n / cols;
            let m = Array2::from_shape_vec((rows, cols), original[..rows * cols].to_vec()).unwrap();
            if c.kind % 2 == 0 {
                let a = m.into_shared();
                let mut b = a.clone();
                let _ = b.quantile_axis_mut(Axis(1), q, &Nearest);
                (a.iter().cloned().collect(), b.iter().cloned().collect())
            } else {
                let mut h = CowArray::from(m.view());
                let _ = h.quantile_axis_mut(Axis(1), q, &Nearest);
                (m.iter().cloned().collect(), h.iter().cloned().collect())
            }
        } else {
            let src = Array1::from(original.clone());
            let run = |h: &mut dyn FnMut() -> ()| h();
            let _ = run;
            if c.kind % 2 == 0 {
                let a = src.into_shared();
                let mut b = a.clone();
                match c.op % 5 {
                    0 => {
                        b.partition_mut(pos);
                    }
                    1 => {
                        b.get_from_sorted_mut(pos);
                    }
                    2 => {
                        b.get_many_from_sorted_mut(&Array1::from(vec![pos, n - 1 - pos, pos]));
                    }
                    _ => {
                        let _ = b.quantile_mut(q, &Nearest);
                    }
                }
                (a.iter().cloned().collect(), b.iter().cloned().collect())
            } else {
                let mut h = CowArray::from(src.view());
                match c.op % 5 {
                    0 => {
                        h.partition_mut(pos);
                    }
                    1 => {
                        h.get_from_sorted_mut(pos);
                    }
                    2 => {
                        h.get_many_from_sorted_mut(&Array1::from(vec![pos, n - 1 - pos, pos]));
                    }
                    _ => {
                        let _ = h.quantile_mut(q, &Nearest);
                    }
                }
                (src.iter().cloned().collect(), h.iter().cloned().collect())
            }
        }
    });
    Pivots::uninstall();
    let (other, handle) = match outcome {
        Ok(x) => x,
        Err(p) => fail!("panic", "an in-place routine (op {}) panicked on a {} handle: {}", c.op % 5, if c.kind % 2 == 0 { "shared ArcArray" } else { "borrowing CowArray" }, p),
    };
    let used = other.len();
    ensure!(
        other[..] == original[..used],
        "guard",
        "an in-place routine (op {}) called on one {} modified the {}: before {:?}, after {:?}",
        c.op % 5,
        if c.kind % 2 == 0 { "ArcArray handle" } else { "borrowing CowArray" },
        if c.kind % 2 == 0 { "other handle sharing the buffer" } else { "borrowed source array" },
        &original[..used],
        other
    );
    let mut a = handle.clone();
    a.sort_unstable();
    let mut b = original[..used].to_vec();
    b.sort_unstable();
    if c.op % 5 != 4 {
        ensure!(a == b, "multiset", "the handle the routine was called on no longer holds the same multiset: {:?} vs {:?}", handle, &original[..used]);
    }
    Ok(Info::new(n >= 2 && original.iter().any(|v| *v != original[0])).class(if c.kind % 2 == 0 { "container:ArcArray(shared)" } else { "container:CowArray(borrowed)" }).class("entry:shared-container"))
}

fn shared_strategy() -> impl Strategy<Value = SharedCase> {
    (
        prop_oneof![proptest::collection::vec(0i64..5, 1..40), proptest::collection::vec(-1000i64..1000, 1..40)],
        0u8..5,
        any::<u16>(),
        0u8..2,
        1usize..6,
        prop_oneof![3 => Just(Pivots::Script(PivotScript { prefix: vec![], tail: Tail::First })), 1 => Just(Pivots::Script(PivotScript { prefix: vec![], tail: Tail::Last })), 3 => pivots_strategy()],
    )
        .prop_map(|(values, op, arg, kind, cols, pivots)| SharedCase { values, op, arg, kind, cols, pivots })
}

pub fn run_c14(ctx: &Ctx) {
    let t = ctx.tier();
    ctx.run_proptest("skip", t.pick(40_000, 1_000_000), skip_strategy(t.pick(40, 200)), &check_skip);
    ctx.run_proptest("skip-wide", t.pick(10_000, 300_000), skip_wide_strategy(), &check_skip_wide);
    ctx.run_proptest("skip-long", t.pick(1_000, 30_000), skip_long_strategy(t.pick(2_500, 4_000)), &check_skip);
}

pub fn run_c03(ctx: &Ctx) {
    let t = ctx.tier();
    ctx.run_proptest("quant", t.pick(20_000, 500_000), qcase_strategy(t.pick(30, 200), true, false), &c03_quant);
    ctx.run_proptest("skip", t.pick(15_000, 300_000), skip_strategy(t.pick(30, 100)), &c03_skip);
    ctx.run_proptest("lanes", t.pick(15_000, 300_000), lanes_strategy(), &c03_lanes);
    ctx.run_proptest("remove", t.pick(15_000, 300_000), remove_strategy(t.pick(40, 150)), &c03_remove);
    ctx.run_proptest("partition", t.pick(10_000, 200_000), sel::part_strategy(t.pick(40, 200)), &c03_partition);
    ctx.run_proptest("select", t.pick(10_000, 200_000), sel::sel_strategy(t.pick(40, 200), 0), &c03_select);
    ctx.run_proptest("bulk", t.pick(10_000, 200_000), sel::bulk_strategy(t.pick(40, 200), 0), &c03_bulk);
    ctx.run_proptest("shared", t.pick(15_000, 300_000), shared_strategy(), &check_shared);
    // long lanes / long request lists
    ctx.run_proptest("quant-long", t.pick(600, 20_000), crate::props::quant::qcase_long_strategy(t.pick(2_500, 5_000), true), &c03_quant);
    ctx.run_proptest("skip-long", t.pick(600, 20_000), skip_long_strategy(t.pick(2_500, 4_000)), &c03_skip);
    ctx.run_proptest("remove-long", t.pick(1_000, 30_000), remove_long_strategy(t.pick(6_000, 10_000)), &c03_remove);
    ctx.run_proptest("select-long", t.pick(800, 24_000), sel::sel_long_strategy(t.pick(5_000, 9_000)), &c03_select);
    ctx.run_proptest("bulk-long", t.pick(1_000, 30_000), sel::bulk_long_strategy(t.pick(5_000, 9_000)), &c03_bulk);
}

pub fn replayers_c14() -> Vec<(&'static str, ReplayFn)> {
    vec![
        ("skip", |v| replay_with::<SkipCase>(v, &check_skip)),
        ("skip-long", |v| replay_with::<SkipCase>(v, &check_skip)),
        ("skip-wide", |v| replay_with::<SkipWideCase>(v, &check_skip_wide)),
    ]
}

pub fn replayers_c03() -> Vec<(&'static str, ReplayFn)> {
    vec![
        ("quant", |v| replay_with::<QCase>(v, &c03_quant)),
        ("skip", |v| replay_with::<SkipCase>(v, &c03_skip)),
        ("lanes", |v| replay_with::<LanesCase>(v, &c03_lanes)),
        ("remove", |v| replay_with::<RemoveCase>(v, &c03_remove)),
        ("partition", |v| replay_with::<sel::PartCase>(v, &c03_partition)),
        ("select", |v| replay_with::<sel::SelCase>(v, &c03_select)),
        ("bulk", |v| replay_with::<sel::BulkCase>(v, &c03_bulk)),
        ("shared", |v| replay_with::<SharedCase>(v, &check_shared)),
        ("quant-long", |v| replay_with::<QCase>(v, &c03_quant)),
        ("skip-long", |v| replay_with::<SkipCase>(v, &c03_skip)),
        ("remove-long", |v| replay_with::<RemoveCase>(v, &c03_remove)),
        ("select-long", |v| replay_with::<sel::SelCase>(v, &c03_select)),
        ("bulk-long", |v| replay_with::<sel::BulkCase>(v, &c03_bulk)),
    ]
}
