//! Quantile oracle shared by C01, C14, C18, C19: q recipes, the documented index
//! computation (both readings), per-strategy acceptance on a sorted lane, the signature of
//! the known finding D5, and the generic call helpers.

use crate::exact::*;
use crate::gen::{Abs, Ty};
use ndarray::{aview1, ArrayD, ArrayViewMut, ArrayViewMut1, Axis, RemoveAxis};
use ndarray_stats::errors::QuantileError;
use ndarray_stats::interpolate::{Higher, Interpolate, Linear, Lower, Midpoint, Nearest};
use ndarray_stats::{Quantile1dExt, QuantileExt};
use noisy_float::types::N64;
use num_bigint::BigInt;
use num_traits::{Signed, Zero};
use proptest::prelude::*;
use serde::{Deserialize, Serialize};

#[derive(Clone, Copy, Debug, Serialize, Deserialize, Hash, PartialEq, Eq)]
pub enum Strat {
    Lower,
    Higher,
    Nearest,
    Midpoint,
    Linear,
}

pub const STRATS: [Strat; 5] = [Strat::Lower, Strat::Higher, Strat::Nearest, Strat::Midpoint, Strat::Linear];

impl Strat {
    pub fn selecting(self) -> bool {
        matches!(self, Strat::Lower | Strat::Higher | Strat::Nearest)
    }
    pub fn class(self) -> &'static str {
        match self {
            Strat::Lower => "strategy:Lower",
            Strat::Higher => "strategy:Higher",
            Strat::Nearest => "strategy:Nearest",
            Strat::Midpoint => "strategy:Midpoint",
            Strat::Linear => "strategy:Linear",
        }
    }
}

pub fn strat_strategy() -> impl Strategy<Value = Strat> {
    proptest::sample::select(STRATS.to_vec())
}

// ---------------------------------------------------------------------------------------
// q recipes (resolved against the lane length at check time)

#[derive(Clone, Copy, Debug, Serialize, Deserialize, Hash, PartialEq, Eq)]
pub enum QSpec {
    Zero,
    One,
    /// k/(N-1) nudged by `nudge` ulps; k = sel*N >> 16 clipped to 0..=N-1
    Grid { sel: u16, nudge: i8 },
    /// (k+1/2)/(N-1) nudged by `nudge` ulps
    Half { sel: u16, nudge: i8 },
    /// smallest positive double
    Tiny,
    /// 1 - 2^-53
    AlmostOne,
    /// any double in [0,1] (bits of the f64)
    Uniform(u64),
    /// an invalid q (bits of the f64): negative, > 1 (only the error table uses it)
    Raw(u64),
}

fn nudge(x: f64, by: i8) -> f64 {
    let mut x = x;
    for _ in 0..by.unsigned_abs() {
        x = if by > 0 { next_up(x) } else { next_down(x) };
    }
    x
}

pub fn next_up(x: f64) -> f64 {
    if x.is_nan() || x == f64::INFINITY {
        return x;
    }
    if x == 0.0 {
        return 5e-324;
    }
    let b = x.to_bits();
    f64::from_bits(if x > 0.0 { b + 1 } else { b - 1 })
}

pub fn next_down(x: f64) -> f64 {
    -next_up(-x)
}

impl QSpec {
    pub fn resolve(self, n: usize) -> f64 {
        let clamp = |x: f64| x.max(0.0).min(1.0);
        match self {
            QSpec::Zero => 0.0,
            QSpec::One => 1.0,
            QSpec::Tiny => 5e-324,
            QSpec::AlmostOne => 1.0 - 2f64.powi(-53),
            QSpec::Uniform(b) => {
                let x = f64::from_bits(b);
                if x >= 0.0 && x <= 1.0 {
                    x
                } else {
                    // map any bit pattern into [0,1]
                    (b >> 11) as f64 / (1u64 << 53) as f64
                }
            }
            QSpec::Raw(b) => f64::from_bits(b),
            QSpec::Grid { sel, nudge: by } => {
                if n <= 1 {
                    return clamp(nudge(sel as f64 / 65535.0, by));
                }
                let k = ((sel as usize * n) >> 16).min(n - 1);
                clamp(nudge(k as f64 / (n - 1) as f64, by))
            }
            QSpec::Half { sel, nudge: by } => {
                if n <= 1 {
                    return clamp(nudge(0.5, by));
                }
                let k = ((sel as usize * (n - 1)) >> 16).min(n - 2);
                clamp(nudge((k as f64 + 0.5) / (n - 1) as f64, by))
            }
        }
    }
    pub fn is_boundary(self) -> bool {
        !matches!(self, QSpec::Uniform(_) | QSpec::Raw(_))
    }
}

pub fn qspec_strategy() -> impl Strategy<Value = QSpec> {
    prop_oneof![
        1 => Just(QSpec::Zero),
        1 => Just(QSpec::One),
        6 => (any::<u16>(), -2i8..=2).prop_map(|(sel, nudge)| QSpec::Grid { sel, nudge }),
        4 => (any::<u16>(), -2i8..=2).prop_map(|(sel, nudge)| QSpec::Half { sel, nudge }),
        1 => Just(QSpec::Tiny),
        1 => Just(QSpec::AlmostOne),
        4 => (0u64..=(1u64 << 53)).prop_map(|m| QSpec::Uniform((m as f64 / (1u64 << 53) as f64).to_bits())),
    ]
}

// ---------------------------------------------------------------------------------------
// index readings

#[derive(Clone, Debug)]
pub struct Reading {
    pub lo: usize,
    pub hi: usize,
    /// fraction in [0,1) as an exact dyadic
    pub frac: Dy,
    pub frac_f64: f64,
    pub which: &'static str,
}

/// The documented index `(N-1)q`: as the code evaluates it (one IEEE multiplication) and,
/// when that differs in floor/ceil, as the exact rational product.
pub fn readings(q: f64, n: usize) -> Vec<Reading> {
    assert!(n >= 1);
    let nm1 = (n - 1) as f64;
    let p = q * nm1;
    let lo = p.floor();
    let hi = p.ceil();
    let frac = p - lo; // exact (Sterbenz-like: p and floor(p) share the binade or lo = 0)
    let mut out = vec![Reading { lo: lo as usize, hi: hi as usize, frac: Dy::from_f64(frac), frac_f64: frac, which: "f64 product" }];
    // exact residual of the product
    let err = q.mul_add(nm1, -p);
    if err != 0.0 && lo == hi {
        // p is an integer but the exact product is not
        let pe = p as i64;
        if err > 0.0 {
            if (pe as usize) + 1 <= n - 1 {
                out.push(Reading { lo: pe as usize, hi: pe as usize + 1, frac: Dy::from_f64(err), frac_f64: err, which: "exact product" });
            }
        } else if pe >= 1 {
            let f = Dy::one().add(&Dy::from_f64(err));
            out.push(Reading { lo: pe as usize - 1, hi: pe as usize, frac: f, frac_f64: 1.0 + err, which: "exact product" });
        }
    }
    out
}

pub fn boundary_ambiguous(q: f64, n: usize) -> bool {
    readings(q, n).len() > 1
}

// ---------------------------------------------------------------------------------------
// values

/// A value of an element type in a form the oracle can compute with.
#[derive(Clone, Copy, Debug, PartialEq)]
pub enum Val {
    I(i128),
    F(f64),
}

impl Val {
    pub fn of(ty: Ty, abs: i128) -> Val {
        match ty {
            Ty::N64 => Val::F(f64::from_bits(abs as u64)),
            Ty::N32 => Val::F(f32::from_bits(abs as u32) as f64),
            _ => Val::I(abs),
        }
    }
    pub fn cmp(&self, o: &Val) -> std::cmp::Ordering {
        match (self, o) {
            (Val::I(a), Val::I(b)) => a.cmp(b),
            (Val::F(a), Val::F(b)) => a.partial_cmp(b).expect("NaN in oracle"),
            _ => panic!("mixed values"),
        }
    }
    pub fn eqv(&self, o: &Val) -> bool {
        self.cmp(o) == std::cmp::Ordering::Equal
    }
    pub fn f(&self) -> f64 {
        match self {
            Val::I(a) => *a as f64,
            Val::F(a) => *a,
        }
    }
}

pub fn sort_vals(v: &mut Vec<Val>) {
    v.sort_by(|a, b| a.cmp(b));
}

fn ulp_of(ty: Ty, x: f64) -> f64 {
    if ty == Ty::N32 {
        ulp32(x as f32)
    } else {
        ulp64(x)
    }
}

/// Signature of known finding D5 ("interp-diff-overflow"): Midpoint/Linear compute
/// `higher - lower` (resp. convert `fraction*(higher-lower)` back) in the element type.
pub fn d5_signature(ty: Ty, strat: Strat, a: Val, b: Val, frac_f64: f64) -> bool {
    if strat.selecting() {
        return false;
    }
    match (a, b) {
        (Val::I(a), Val::I(b)) => {
            if !ty.is_signed_int() {
                return false;
            }
            let (_, max) = ty.int_range();
            let d = b - a;
            match strat {
                Strat::Midpoint => d > max,
                _ => {
                    // the code converts trunc(frac * (higher_f64 - lower_f64)) back to T
                    let t = (frac_f64 * (b as f64 - a as f64)).trunc();
                    t > max as f64
                }
            }
        }
        (Val::F(a), Val::F(b)) => {
            if ty == Ty::N32 && strat == Strat::Midpoint {
                !((b as f32) - (a as f32)).is_finite()
            } else if ty == Ty::N32 {
                // Linear goes through f64 and converts fraction*(higher-lower) back to N32
                !(b - a).is_finite() || !((frac_f64 * (b - a)) as f32).is_finite()
            } else {
                !(b - a).is_finite()
            }
        }
        _ => false,
    }
}

/// Is `r` an acceptable quantile of the sorted lane `s` under `strat` for this reading?
pub fn accept_reading(ty: Ty, strat: Strat, s: &[Val], rd: &Reading, r: Val) -> Result<(), String> {
    let n = s.len();
    let a = s[rd.lo];
    let b = s[rd.hi];
    match strat {
        Strat::Lower => {
            if r.eqv(&a) {
                Ok(())
            } else {
                Err(format!("Lower must be sorted[{}] = {:?}", rd.lo, a))
            }
        }
        Strat::Higher => {
            if r.eqv(&b) {
                Ok(())
            } else {
                Err(format!("Higher must be sorted[{}] = {:?}", rd.hi, b))
            }
        }
        Strat::Nearest => {
            let half = Dy::from_f64(0.5);
            let c = rd.frac.cmp(&half);
            let ok = match c {
                std::cmp::Ordering::Less => r.eqv(&a),
                std::cmp::Ordering::Greater => r.eqv(&b),
                std::cmp::Ordering::Equal => r.eqv(&a) || r.eqv(&b),
            };
            if ok {
                Ok(())
            } else {
                Err(format!("Nearest with fraction {} must be {:?} (sorted[{}]={:?}, sorted[{}]={:?})", rd.frac_f64, if c == std::cmp::Ordering::Less { a } else { b }, rd.lo, a, rd.hi, b))
            }
        }
        Strat::Midpoint | Strat::Linear => match (a, b, r) {
            (Val::I(a), Val::I(b), Val::I(r)) => {
                if r < a || r > b {
                    return Err(format!("{:?} result {} lies outside [lower, higher] = [{}, {}]", strat, r, a, b));
                }
                // |r - exact| <= 1
                let ok = if strat == Strat::Midpoint {
                    (2 * r - (a + b)).abs() <= 2
                } else {
                    // frac = m * 2^e ; |(r-a) - frac*(b-a)| <= 1
                    let f = &rd.frac;
                    let d = BigInt::from(b - a);
                    let ra = BigInt::from(r - a);
                    if f.is_zero() {
                        ra.abs() <= BigInt::from(1)
                    } else if f.e >= 0 {
                        let fm = &f.m << (f.e as usize);
                        (ra - fm * d).abs() <= BigInt::from(1)
                    } else {
                        let k = (-f.e) as usize;
                        let lhs = (ra << k) - &f.m * d;
                        lhs.abs() <= (BigInt::from(1) << k)
                    }
                };
                if ok {
                    Ok(())
                } else {
                    Err(format!("{:?} result {} is more than one unit away from the exact value between {} and {} (fraction {})", strat, r, a, b, rd.frac_f64))
                }
            }
            (Val::F(a), Val::F(b), Val::F(r)) => {
                if !r.is_finite() || !a.is_finite() || !b.is_finite() {
                    // only reachable when a == b == +-inf is excluded by the signature; be strict
                    if r == a && a == b {
                        return Ok(());
                    }
                    return Err(format!("{:?} result {} for neighbours {} and {}", strat, r, a, b));
                }
                let da = Dy::from_f64(a);
                let db = Dy::from_f64(b);
                let dr = Dy::from_f64(r);
                let m = a.abs().max(b.abs());
                let (err, tol) = if strat == Strat::Midpoint {
                    // |2r - (a+b)| <= 2 * 4 ulp
                    let e = dr.scale2(1).sub(&da.add(&db)).abs().scale2(-1);
                    (e, 4.0 * ulp_of(ty, m))
                } else {
                    let exact = da.add(&rd.frac.mul(&db.sub(&da)));
                    let u = if ty == Ty::N32 { 2f64.powi(-24) } else { 2f64.powi(-53) };
                    (dr.sub(&exact).abs(), 4.0 * ulp_of(ty, m) + 2.0 * (n as f64) * u * (b - a).abs())
                };
                if err.to_f64() <= tol {
                    Ok(())
                } else {
                    Err(format!("{:?} result {:e} differs from the exact value between {:e} and {:e} (fraction {}) by {:e} > tolerance {:e}", strat, r, a, b, rd.frac_f64, err.to_f64(), tol))
                }
            }
            _ => Err("mixed value kinds".to_string()),
        },
    }
}

#[derive(Debug, PartialEq)]
pub enum Verdict {
    Ok,
    /// matches the signature of the open known finding D5: not judged
    Known,
    Bad(String),
}

/// Judge one quantile result against the sorted lane.
pub fn judge(ty: Ty, strat: Strat, sorted: &[Val], q: f64, r: Val, strict: bool) -> Verdict {
    let rds = readings(q, sorted.len());
    if !strict {
        for rd in &rds[..1] {
            if d5_signature(ty, strat, sorted[rd.lo], sorted[rd.hi], rd.frac_f64) {
                return Verdict::Known;
            }
        }
    }
    let mut errs = vec![];
    for rd in &rds {
        match accept_reading(ty, strat, sorted, rd, r) {
            Ok(()) => return Verdict::Ok,
            Err(e) => errs.push(format!("[{}: index {}..{} frac {}] {}", rd.which, rd.lo, rd.hi, rd.frac_f64, e)),
        }
    }
    Verdict::Bad(errs.join(" | "))
}

/// Would the call as a whole touch the D5 signature on this lane for this q?
pub fn lane_hits_d5(ty: Ty, strat: Strat, sorted: &[Val], q: f64) -> bool {
    let rd = &readings(q, sorted.len())[0];
    d5_signature(ty, strat, sorted[rd.lo], sorted[rd.hi], rd.frac_f64)
}

// ---------------------------------------------------------------------------------------
// calls

#[derive(Clone, Copy, Debug, Serialize, Deserialize, Hash, PartialEq, Eq)]
pub enum Api {
    /// quantile_axis_mut
    AxisSingle,
    /// quantiles_axis_mut
    AxisBulk,
    /// Quantile1dExt::quantile_mut (1-D only)
    OneDSingle,
    /// Quantile1dExt::quantiles_mut (1-D only)
    OneDBulk,
}

pub trait QEl: Abs + Ord + Clone + num_traits::NumOps + num_traits::FromPrimitive + num_traits::ToPrimitive {}
impl<T: Abs + Ord + Clone + num_traits::NumOps + num_traits::FromPrimitive + num_traits::ToPrimitive> QEl for T {}

fn call_axis_i<T: QEl, D: RemoveAxis, I: Interpolate<T>>(mut v: ArrayViewMut<'_, T, D>, axis: usize, qs: &[N64], bulk: bool, i: &I) -> Result<ArrayD<T>, QuantileError> {
    if bulk {
        v.quantiles_axis_mut(Axis(axis), &aview1(qs), i).map(|a| a.into_dyn())
    } else {
        v.quantile_axis_mut(Axis(axis), qs[0], i).map(|a| a.into_dyn())
    }
}

/// quantile(s)_axis_mut on a view of any dimension type.
pub fn call_axis<T: QEl, D: RemoveAxis>(v: ArrayViewMut<'_, T, D>, axis: usize, qs: &[N64], bulk: bool, strat: Strat) -> Result<ArrayD<T>, QuantileError> {
    match strat {
        Strat::Lower => call_axis_i(v, axis, qs, bulk, &Lower),
        Strat::Higher => call_axis_i(v, axis, qs, bulk, &Higher),
        Strat::Nearest => call_axis_i(v, axis, qs, bulk, &Nearest),
        Strat::Midpoint => call_axis_i(v, axis, qs, bulk, &Midpoint),
        Strat::Linear => call_axis_i(v, axis, qs, bulk, &Linear),
    }
}

fn call_1d_i<T: QEl, I: Interpolate<T>>(mut v: ArrayViewMut1<'_, T>, qs: &[N64], bulk: bool, i: &I) -> Result<ArrayD<T>, QuantileError> {
    if bulk {
        v.quantiles_mut(&aview1(qs), i).map(|a| a.into_dyn())
    } else {
        v.quantile_mut(qs[0], i).map(|x| ndarray::arr0(x).into_dyn())
    }
}

/// Quantile1dExt wrappers.
pub fn call_1d<T: QEl>(v: ArrayViewMut1<'_, T>, qs: &[N64], bulk: bool, strat: Strat) -> Result<ArrayD<T>, QuantileError> {
    match strat {
        Strat::Lower => call_1d_i(v, qs, bulk, &Lower),
        Strat::Higher => call_1d_i(v, qs, bulk, &Higher),
        Strat::Nearest => call_1d_i(v, qs, bulk, &Nearest),
        Strat::Midpoint => call_1d_i(v, qs, bulk, &Midpoint),
        Strat::Linear => call_1d_i(v, qs, bulk, &Linear),
    }
}

pub fn n64s(qs: &[f64]) -> Vec<N64> {
    qs.iter().map(|&q| N64::unchecked_new(q)).collect()
}

#[allow(dead_code)]
fn _z() -> BigInt {
    BigInt::zero()
}
