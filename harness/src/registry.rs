//! Property table: which runner, which replayers, which build profiles, the evidence texts.

use crate::core::{Ctx, ReplayFn, Tier};
use crate::props;

pub struct Prop {
    pub id: &'static str,
    pub run: fn(&Ctx),
    pub replayers: fn() -> Vec<(&'static str, ReplayFn)>,
    /// how cases are generated and what makes one non-trivial / distinct
    pub rule: &'static str,
    pub assumptions: &'static [&'static str],
    /// build profiles exercised in the quick / thorough tier
    pub profiles_quick: &'static [&'static str],
    pub profiles_thorough: &'static [&'static str],
    pub shards_quick: u32,
    pub shards_thorough: u32,
}

impl Prop {
    pub fn profiles(&self, t: Tier) -> &'static [&'static str] {
        t.pick(self.profiles_quick, self.profiles_thorough)
    }
    pub fn shards(&self, t: Tier) -> u32 {
        t.pick(self.shards_quick, self.shards_thorough)
    }
}

const BOTH: &[&str] = &["checked", "fast"];
#[allow(dead_code)]
const CHECKED: &[&str] = &["checked"];

const COMMON_ASSUMPTIONS: &[&str] = &[
    "ndarray's public slicing/indexing API and the Rust standard library (sort, BTreeSet) are correct: the oracles are built from them",
    "the verif_hooks feature changes nothing when no pivot script / fuel is installed (a share of the pivot-dependent cases runs unscripted)",
    "comparison-only routines behave identically on order-isomorphic inputs, which is what makes the weak-order enumeration complete up to its length bound",
];

const NUM_ASSUMPTIONS: &[&str] = &[
    "big-integer arithmetic (num-bigint) is correct; every finite float converts exactly to a dyadic rational",
    "the accepted error is the explicit first-order forward-error budget of DESIGN.md appendix C ((2n+8)u times the stated sum of absolute terms), valid for any summation order with or without FMA; it is a formula, not a fitted constant",
    "libm ln/exp/sqrt/log10 err by at most 1-2 ulp (charged to the budgets)",
    "ndarray's public slicing API is correct (layouts are built from it)",
];

pub fn all() -> Vec<Prop> {
    vec![
        Prop {
            id: "C01",
            run: props::quant::run_c01,
            replayers: props::quant::replayers,
            rule: "Random: proptest cases = element type (i8..u64, usize, N64; N32 in thorough) x 1..4-D shape x axis x layout (C/F/permuted/stepped/reversed/padded view into a sentinel parent) x values (tiny alphabet, small, one value repeated with a few others, huge base + small offsets, full width, type extremes; floats incl. signed zeros, subnormals, infinities, huge) x q recipes resolved against the lane length (0, 1, k/(N-1) and (k+1/2)/(N-1) each nudged by -2..2 ulp, 2^-1074, 1-2^-53, uniform) x 5 strategies x API (quantile_axis_mut, quantiles_axis_mut with 0..32 q, quantile_mut, quantiles_mut) x static/dynamic dimension x 1-2 pivot scripts (outputs must agree); distinct by hash of the whole case. A second random stream (\"quant-long\") uses lanes of 129..3000/5000 elements (half of them lengths b*k-1, b*k, b*k+1 for blocks b = 64..4096) in 1-2-D, request lists of up to 400 quantiles (both extremes only, extremes among others, runs of adjacent ranks, the upper / lower tail) and lanes arranged with the maximum first / the minimum last / monotone. Enumeration: all weak-order patterns of length <= 5 (quick) / 6 (thorough) x {i8,u16,N64} x 5 strategies x the boundary q set x ALL pivot sequences. Oracle: full sort of each lane, index = f64 product q*(N-1) (the exact-rational reading is also accepted when it differs), per-strategy acceptance in exact integer / dyadic arithmetic. Non-trivial: lane length >= 3, some lane not constant, and (lower index != higher index or q boundary-constructed). Cases matching the signature of the open known finding (Midpoint/Linear with a neighbour difference not representable in the element type) are counted as excluded, not judged.",
            assumptions: COMMON_ASSUMPTIONS,
            profiles_quick: BOTH,
            profiles_thorough: BOTH,
            shards_quick: 8,
            shards_thorough: 16,
        },
        Prop {
            id: "C02",
            run: props::sel::run_c02,
            replayers: props::sel::replayers,
            rule: "Enumeration: every weak-order pattern (surjection onto 0..k) of the stated lengths x every in-range index (single) / every non-empty index subset in scrambled order with repeats (bulk) x EVERY pivot sequence, enumerated by DFS through the pivot hook; each (pattern, request, pivot sequence) triple is emitted exactly once, so enumerated cases are distinct by construction. Random: proptest cases (length <= 80/300, arrays dominated by one repeated value up to twice that, i64 with ties/extremes/sorted/reversed, strides +-1..3 inside a sentinel buffer, scripted pivots First/Last/Middle/Hash/real; the same oracles also on i128, BigInt and i16 elements), distinct by 64-bit hash of the whole case. Two further random streams (\"select-long\", \"bulk-long\") use arrays of 257..5000/9000 elements (lengths around powers of two and block sizes; 4 / 40 / n/4 distinct values, full-width, permutations, monotone, one dominating value; extremes swapped to the ends in half of the cases) with requests for rank 0, n-1 or any rank (single) and 1..300 ranks as scattered lists, both extremes, consecutive blocks of up to 200 ranks, the k largest / smallest, or every rank (bulk). Non-trivial: array length >= 2 (so at least one pivot is drawn) and, for bulk, a non-empty request.",
            assumptions: COMMON_ASSUMPTIONS,
            profiles_quick: BOTH,
            profiles_thorough: BOTH,
            shards_quick: 8,
            shards_thorough: 16,
        },
        Prop {
            id: "C03",
            run: props::skip::run_c03,
            replayers: props::skip::replayers_c03,
            rule: "proptest over every mutating entry point, each called on a view into a larger sentinel-filled parent (axis permutation, per-axis step 1..3, reversal, 0..2 guard elements in front/behind; 1-D routines on strided/offset/reversed views): partition_mut, get_from_sorted_mut, get_many_from_sorted_mut, quantile_mut, quantiles_mut, quantile_axis_mut, quantiles_axis_mut (11 Ord element types, 1-4-D, every axis), quantile_axis_skipnan_mut and map_axis_skipnan_mut with a recording closure (f32, f64, Option<i32>, Option<u8>, Option<i64>, Option<N64>, 1-3-D, every axis), remove_nan_mut directly and over lanes_mut of n-D arrays (all 14 impls), under scripted pivots. A further checker calls partition_mut, get_from_sorted_mut, get_many_from_sorted_mut, quantile_mut and quantile_axis_mut on one ArcArray handle of a shared buffer and on a CowArray borrowing another array: the other handle / the borrowed source must stay bit-identical. The quantile, skip-NaN, remove_nan_mut, selection and bulk-selection checkers also run on the long streams of C01/C14/C04/C02 (lanes of hundreds to thousands of elements, request lists of up to 400 quantiles / 300 ranks). Oracle: every parent element outside the view is bit-identical to the sentinel afterwards, and every lane along the routine's axis holds the same multiset of bit patterns (missing values and NaN payloads included). Distinct by hash of the whole case. Non-trivial: the view is a strict subset of its parent and the data are not constant.",
            assumptions: COMMON_ASSUMPTIONS,
            profiles_quick: BOTH,
            profiles_thorough: BOTH,
            shards_quick: 8,
            shards_thorough: 16,
        },
        Prop {
            id: "C04",
            run: props::nan::run_c04,
            replayers: props::nan::replayers,
            rule: "Enumeration: all 2^L missing/non-missing masks for L <= 13 (quick) / 16 (thorough) x the 14 MaybeNan impls (f32, f64, Option of u8..u128, i8..i128, N32, N64) x strides {-3,-2,-1,1,2,3} x offsets {0,1,2} inside a sentinel buffer, values distinct (distinct by construction). Random: proptest masks up to 60/200 elements incl. first-only/last-only/alternating/dense/sparse, strides up to +-7, and lanes of 1-3-D arrays in generated layouts taken along every axis with lanes_mut (distinct by hash). A further random stream (\"remove-long\") uses lanes of 300..6000/10000 elements (lengths around block sizes) whose missing values sit only in the last / first few elements, only at the very end / start, in a run of 500..1200 right before a present last element (or after a present first one), everywhere but one element, at one random position, at 10 / 50 / 90 % density, or in a missing tail of arbitrary length. Oracle order: metadata of the returned view (pointer, length, stride) must designate distinct element addresses of the input view BEFORE anything is dereferenced; then multiset, no missing element, count, determinism, idempotence, typed references. Non-trivial: at least one missing and one non-missing element and (|stride| != 1 or offset != 0).",
            assumptions: COMMON_ASSUMPTIONS,
            profiles_quick: BOTH,
            profiles_thorough: BOTH,
            shards_quick: 8,
            shards_thorough: 16,
        },
        Prop {
            id: "C05",
            run: props::minmax::run_c05,
            replayers: props::minmax::replayers,
            rule: "proptest: element type (i32, u8, i64, f32, f64) x 0-4-D shape incl. zero-length axes and 0-D x layout (view into a sentinel parent: permuted/stepped/reversed/padded) x ownership (view, owned C, owned F, ArcArray, CowArray borrowed/owned) x static/dynamic dimension x values (ties, signed zeros, infinities, one NaN at first/middle/last position, several NaNs). One case in ten (1-3-D) has more than 1000 elements. A further stream (\"minmax-long\") uses 1000..20000/70000 elements (lengths around powers of two and block sizes, 1-3-D) with a unique extremum or a single NaN planted at the first / last / middle / a random position. Oracle: independent scan of the logical data: Ok(idx) => a[idx] <= (>=) every element, *min() == a[argmin()] under IEEE ==, EmptyInput <=> no elements, UndefinedOrder <=> a NaN is present (non-empty). The returned index is not required to be the first extremum. Distinct by hash. Non-trivial: >= 2 elements and (a tie for the extremum, a NaN, or a non-standard layout/ownership).",
            assumptions: COMMON_ASSUMPTIONS,
            profiles_quick: BOTH,
            profiles_thorough: BOTH,
            shards_quick: 8,
            shards_thorough: 16,
        },
        Prop {
            id: "C06",
            run: props::means::run_c06,
            replayers: props::means::replayers_c06,
            rule: "proptest: element type (f64, f32, i32, i64, u32, usize) x 1-3-D shape x axis x independent layouts for data and weights (two views of the same storage type into sentinel parents) x data class (mixed signs, halves with ties, common offset up to 2^20 with small spread, mixed magnitudes 2^+-40 / 2^+-12, positive) x weight class (quarters, wide ratios, uniform, zero at first/middle/last, sparse, uniformly tiny 2^-40..2^-90, full-mantissa weights in (0.1, 10); one case in eight makes the first element of every lane a far outlier of zero weight); signed weights for the sum forms. A further stream (\"sums-long\") uses 600..20000/33000 elements (lengths around powers of two and block sizes) as one 1-D array or a long axis with 1..3 lanes; weights also at the bottom of the exponent range (subnormal sums). The geometric mean is also checked on data in which a quarter of the elements are subnormal. Oracle: inputs are dyadic rationals, so sum x, sum w x and their absolute counterparts are computed exactly with big integers; accepted error (2n+8)u * sum|terms| evaluated exactly (weighted_mean: cross-multiplied, no division); integers: exact equality incl. truncating division; per-axis forms lane by lane against the exact oracle; harmonic mean against 200-bit reciprocals, geometric mean against exp of a compensated f64 mean log. Distinct by hash. Non-trivial: n >= 3 and (non-uniform weights or mixed signs).",
            assumptions: NUM_ASSUMPTIONS,
            profiles_quick: BOTH,
            profiles_thorough: BOTH,
            shards_quick: 8,
            shards_thorough: 16,
        },
        Prop {
            id: "C07",
            run: props::means::run_c07,
            replayers: props::means::replayers_c07,
            rule: "proptest over f64/f32 arrays as in C06 with ddof in {0, 1, 1/2, k/1024} and moment order 0..8 (0..12 thorough). A further stream (\"var-long\") uses 600..13000/25000 elements (lengths around powers of two and block sizes, e.g. 4096k+1). Weight classes include weights at the bottom of the exponent range (k*2^-1023..2^-1045; ddof 0), for which the budget carries the explicit underflow term 4 n eta (1+R)^2 (1+W)/D. Oracle: exact rational weighted variance (W Q - S1^2)/(W (W - ddof)) with the range-based budget gamma (W/D) R (R + max|x|) + |var| gamma W/D (R over the elements of non-zero weight; the documented update is one-pass), std judged on its square and as sqrt of the returned variance; exact central moments via n x_i - sum x with budget 2(2n+4p+8)u(A_p + p max|x| A_(p-1)); orders 0/1 bit-exact; skewness/kurtosis by first-order propagation; per-axis forms lane by lane; variance >= -tol. Domain: W - ddof > 2^-10 W. Distinct by hash. Non-trivial: resolving (budget <= 2^-10 of the exact value), n >= 3, non-constant, and (non-uniform weights or order >= 3 or max|x|^2 >= 2^20 var).",
            assumptions: NUM_ASSUMPTIONS,
            profiles_quick: BOTH,
            profiles_thorough: BOTH,
            shards_quick: 8,
            shards_thorough: 16,
        },
        Prop {
            id: "C08",
            run: props::pairs::run_c08,
            replayers: props::pairs::replayers_c08,
            rule: "proptest: f64/f32 matrices of 1..8 variables x 2..64 (f32: 32) observations, 2-D layouts (C, F/transposed, stepped, reversed, padded views), data classes as in C06, ddof in {0, 1, quarters, k+1/2 < n, n-1/2, n-1/4}, whole-matrix scales 2^+-120/300 and per-variable scales in 2^+-400. A further stream (\"cov-long\") uses 1..4 variables x 300..6000/12000 observations (f64; lengths around powers of two and block sizes). Oracle: exact sums of products of n x - sum x (big integers) for every entry; budget [gamma sum|dx_i||dx_j| + n e_i e_j + gamma(e_i sum|dx_j| + e_j sum|dx_i|)]/(n-ddof); symmetry and non-negative diagonal within the budget; exact rho from the exact sums with a range-based budget for each sigma^2 (ndarray's std_axis is one-pass), diagonal 1, |rho| <= 1, invariance under x -> a x + b (a > 0; each side against its own exact value, powers of two also against each other) and sign flip under negation of one variable. Distinct by hash. Non-trivial: resolving, >= 2 variables, >= 3 observations, non-square.",
            assumptions: NUM_ASSUMPTIONS,
            profiles_quick: BOTH,
            profiles_thorough: BOTH,
            shards_quick: 8,
            shards_thorough: 16,
        },
        Prop {
            id: "C09",
            run: props::pairs::run_c09,
            replayers: props::pairs::replayers_c09,
            rule: "proptest: element type (i32, i64, f64, f32, BigInt) x 1-4-D shape x independent layouts for the two operands x ownership pairing (view/owned/shared for each operand) x values (integer magnitudes bounded from n so nothing overflows; floats as in C06; NaN only to exercise count_eq/count_neq) with a share of equal positions. The peak passed to PSNR is positive in most cases and negative in a share of them (e.g. the minimum of a signed type: the documented function squares it). A further stream (\"dev-long\") uses 256..20000/40000 elements: a long leading (or trailing) axis with lengths around powers of two times small trailing axes 1,2,3,4,5,7,12,16. Oracle: element-wise loop over logical indexes in exact arithmetic (i128 / dyadic): count_eq exact and count_eq+count_neq == len; sq_l2/l1/linf exact for integers, within (2n+8)u of the exact value for floats (linf: 2u); l2, mean_abs_err, mean_sq_err, root_mean_sq_err, PSNR recomputed from the exact base with the documented formula AND checked at f64 accuracy as the documented functions of the routine's own sq_l2/l1 results (float data also under a common scale of 2^+-100/300 and with a peak next to the r.m.s. error, i.e. PSNR near 0 dB); symmetry (exact for integers) and d(a,a) = 0. A second checker feeds two ALIASING views of one buffer (a square matrix and its transpose; a prefix and an every-second-element view: same first element, different strides) and demands the exact values. Distinct by hash. Non-trivial: >= 2 elements, >= 2 differing positions and operands with different layouts or ownership.",
            assumptions: NUM_ASSUMPTIONS,
            profiles_quick: BOTH,
            profiles_thorough: BOTH,
            shards_quick: 8,
            shards_thorough: 16,
        },
        Prop {
            id: "C10",
            run: props::pairs::run_c10,
            replayers: props::pairs::replayers_c10,
            rule: "proptest: f64/f32 arrays of 1-3 dimensions, p and q non-negative finite (k/4096, zeros, m 2^e), normalised or not, independent layouts for p and q, NaN placements in 10% of the cases; whole-array classes with entries 2^-300..2^-900 (|ln p| in the hundreds) and with q within 2^-20 of 1. A further stream (\"ent-long\") uses 300..40000/70000 elements (1-D or a long axis times 1..4). Oracle: -sum x ln x, -sum p ln q, -sum p ln(q/p) by f64 libm with compensated summation, zero-p terms contributing exactly 0 (so p=0 with q=NaN or q=0 stays finite), budget 2(2n+8)u sum|terms| (KL: + sum|p|); p>0 with q=0 => +inf; result NaN <=> a NaN in a contributing term; identities KL(p,p) == 0 (NaN when p holds a NaN), p against a reversed-axes view of its own buffer for shapes that read the same backwards, |H(p,q) - H(p) - KL(p,q)| within the summed budgets, KL >= -tol and H(p) <= ln n + tol for normalised input (normalisation defect charged). Distinct by hash. Non-trivial: >= 3 elements, resolving, and (a zero in p or q, or different layouts).",
            assumptions: NUM_ASSUMPTIONS,
            profiles_quick: BOTH,
            profiles_thorough: BOTH,
            shards_quick: 8,
            shards_thorough: 16,
        },
        Prop {
            id: "C11",
            run: props::hist::run_c11,
            replayers: props::hist::replayers_c11,
            rule: "proptest histories: grid of 1-3 axes, each axis an arbitrary edge list (unsorted, duplicates, 0/1/2..8 edges; i32, i64, N64; handed over as a Vec or as an owned Array1 that was sliced / inverted in place), 0..60 (quick) / 120 (thorough) add_observation operations with coordinates drawn from the edges themselves, their neighbours, below the first and beyond the last edge. A further stream (\"hist-long\") runs histories of up to 3000/6000 observations. \"hist-wide\" runs histories on a grid whose first axis has 255..1025 edges (around powers of two) with observations on / next to / beyond the last and first edge; \"hist-matrix-long\" calls HistogramExt::histogram on matrices of 20000..140000/200000 rows (row counts around 32768, 65536, 131072; all rows, all but every 1000th, the first 65536 or none of them in one bin), rows expanded from (rows, class, seed) inside the check. Model: dictionary index-tuple -> count with bin lookup by linear scan. After EVERY step counts() is compared with the model at every index, its shape with grid.shape(), and the return value with the model (BinNotFound <=> no bin; a rejected insert changes nothing). Every second insert hands the point over as a reversed (stride -1) view. Then the same observations as a row-major matrix, a column-major matrix, a matrix view with a reversed column axis and in a permuted order through HistogramExt::histogram. Distinct by hash. Non-trivial: >= 2 axes with different bin counts, at least one accepted, one rejected and one on-an-edge observation.",
            assumptions: COMMON_ASSUMPTIONS,
            profiles_quick: BOTH,
            profiles_thorough: BOTH,
            shards_quick: 8,
            shards_thorough: 16,
        },
        Prop {
            id: "C12",
            run: props::hist::run_c12,
            replayers: props::hist::replayers_c12,
            rule: "proptest: element type (i32, i64, u32, usize within +-MAX/4; N64) x strategy (Sqrt, Rice, Sturges, FreedmanDiaconis, Auto) x data of length 0..400 (quick) / 4000 (thorough) from classes k/d grids (inexact in binary), large offset + spread down to single ulps, heavy ties (zero IQR) with outliers, moderate values, integers right below the type's maximum (max + width still representable), constant, empty; 1 column through from_array, 1-3 columns through GridBuilder followed by histogram. One class puts a far outlier (10^3..10^8 away) next to a narrow bulk, which makes the IQR-based strategies build tens of thousands of bins. Domain precondition (counted as discarded): (max-min)/bin_width() <= 3e5. Termination is decided by a fuel budget of 64*(bins+2)+1000 iterations of the counting loop (hook), not by a clock. Oracle: empty => EmptyInput, constant => Strategy; accepted => first edge == min, equal widths (ints exactly, N64 within 2 ulp of max(largest |edge|, last edge - first edge): the documented min + i*width rounds the product at its own magnitude), last edge > max and last - max <= width, every observation in exactly one bin, histogram total == n, n_bins() == bins built (N64: when width >= 4 ulp of that magnitude). Distinct by hash. Non-trivial: accepted, >= 3 distinct values and (N64, or integer width >= 2, or span >= 2^20).",
            assumptions: COMMON_ASSUMPTIONS,
            profiles_quick: BOTH,
            profiles_thorough: BOTH,
            shards_quick: 8,
            shards_thorough: 16,
        },
        Prop {
            id: "C13",
            run: props::hist::run_c13,
            replayers: props::hist::replayers_c13,
            rule: "Enumeration: every sequence of length <= 6 (quick) / 7 (thorough) over the alphabet {0,2,..,2L} as edge input (every multiset and every order; via From<Vec> and From<Array1>, the owned Array1 being built from a Vec, sliced in place with a step, inverted in place or sliced in place to an offset sub-range), probed with every integer in -1..2L+1 (below, on, between, above). Random: i64/i32/u8/N64 edge lists up to 200 values, probes on and next to every edge; grids of 1-3 axes with every accessor (ndim, shape, projections, index_of, index incl. out-of-range tuples). A further stream (\"edges-long\") uses 300..5000/10000 edge values (unsorted with few / many duplicates, increasing, decreasing) probed at both extremes, at 60 random positions and around 20 of the edges. Enumeration \"edges-huge\": edge collections of 2^k + d values (k = 8..21/22, d = -1, 0, 1, 2; edges 3i+1, increasing or, up to 2^16, decreasing), every value 3i, 3i+1, 3i+2 looked up against the arithmetic model. Oracle: BTreeSet for the edges, linear scan e_i <= v < e_(i+1) for lookup, mutual consistency of indices_of / index_of / range_of / index. Non-trivial: >= 3 distinct edges and a probe strictly inside or on an interior edge (edges); >= 2 axes with >= 3 edges each and a point inside (grid).",
            assumptions: COMMON_ASSUMPTIONS,
            profiles_quick: BOTH,
            profiles_thorough: BOTH,
            shards_quick: 8,
            shards_thorough: 16,
        },
        Prop {
            id: "C14",
            run: props::skip::run_c14,
            replayers: props::skip::replayers_c14,
            rule: "proptest: element type (f32, f64, Option<i32>, Option<u8>, Option<i64>, Option<N64>) x 1-3-D shape x axis x layout (view into a sentinel parent) x values (tiny alphabet / small / wide) x missing mask (random density, none, all, first-only, last-only, alternating, dense) x q recipe x strategy x pivot script. One case exercises min/max_skipnan, argmin/argmax_skipnan, fold_skipnan (with a non-trivial init), visit_skipnan, indexed_fold_skipnan, fold_axis_skipnan, map_axis_skipnan_mut (recording closure) and quantile_axis_skipnan_mut; each is compared with the plain operation on the harness-filtered data (quantiles through the C01 oracle on the filtered, sorted lane; all-missing lane => missing value; nothing left => missing value / EmptyInput). Two further streams: \"skip-long\" (lanes of 300..2500/4000 elements, 1-3 lanes, missing values only in the tail / head, runs of 500..1200 missing values next to a present end element, all but one missing, sparse / dense) and \"skip-wide\" (Option<i128> / Option<u128> with magnitudes up to 2^120, compared directly with quantile_axis_mut on the filtered lane of i128 / u128 under the same pivots: the 64-bit value model of the quantile oracle does not apply there). Distinct by hash. Non-trivial: some but not all values missing, lane length >= 3, and the axis is not the contiguous one or the layout is non-standard.",
            assumptions: COMMON_ASSUMPTIONS,
            profiles_quick: BOTH,
            profiles_thorough: BOTH,
            shards_quick: 8,
            shards_thorough: 16,
        },
        Prop {
            id: "C15",
            run: props::sel::run_c15,
            replayers: props::sel::replayers,
            rule: "Enumeration: every weak-order pattern of length 1..8 (quick) / 1..9 (thorough) x every pivot position x view strides {1,2,3,-1,-2} inside a sentinel buffer (distinct by construction). Random: proptest arrays up to 60/500 elements plus lengths at which blocked implementations change regime (31..33, 63..65, 127..129, ..., 512), element types i64, i128, BigInt and i16 (a routine may dispatch on the element size), distinct by hash. Non-trivial: length >= 2; the length-1 in-range calls (where the unrepaired code panicked) are counted separately in classes.",
            assumptions: COMMON_ASSUMPTIONS,
            profiles_quick: BOTH,
            profiles_thorough: BOTH,
            shards_quick: 8,
            shards_thorough: 16,
        },
        Prop {
            id: "C16",
            run: props::sel::run_c16,
            replayers: props::sel::replayers,
            rule: "Enumeration: lengths 0..7/8 x every weak-order pattern x positions {n, n+1, 2n+3, MAX/2, MAX} x every pivot sequence (single selection); every subset (size <= 4) of {0..n-1, n, n+2, MAX} containing an out-of-range entry x every pivot sequence (bulk); partition_mut at the same out-of-range positions x 5 strides; in-range calls on lengths 1..5/6 under every pivot sequence. Random: proptest with 50% out-of-range requests, plus Bins::index / Grid::index with out-of-range entries per axis. Both build profiles. Oracle: unwinds <=> some position >= length. Non-trivial: an out-of-range call on a non-empty array, or an in-range call on length >= 2 (the enumerations additionally cover lengths 1 and 2 completely).",
            assumptions: COMMON_ASSUMPTIONS,
            profiles_quick: BOTH,
            profiles_thorough: BOTH,
            shards_quick: 8,
            shards_thorough: 16,
        },
        Prop {
            id: "C17",
            run: props::errors::run_c17,
            replayers: props::errors::replayers,
            rule: "Enumerated decision table, not sampled: 47 fallible public routines (QuantileExt x9, Quantile1dExt x2, SummaryStatisticsExt x15, DeviationExt x10, EntropyExt x3, CorrelationExt x2, five strategies' from_array, GridBuilder::from_array) x first-input scenario {non-empty, empty 1-D, empty through a zero-length axis at a generated position, 0-D} x second-argument scenario {same shape, different shape with equal element count, different shape, different rank, emptiness differs; for axis weights: equal / longer / shorter / empty} x q scenario {valid (incl. empty request list), q<0 (-0.1, -5e-324, -1, -inf), q>1 (1+ulp, 1.5, 2, +inf), several invalid in different positions} x {float, integer} element type x 3 layouts (C, F, stepped+reversed view); every populated cell is instantiated with 100 (quick) / 2000 (thorough) seeded shape instances. Oracle: the expected cell value derived from the doc comments (InvalidQuantile(first offending q) before anything else; quantiles: EmptyInput <=> chosen axis has length 0; guarded routines: EmptyInput <=> first input empty, else ShapeMismatch{first_shape, second_shape} with payload compared; weighted_sum(_axis): no emptiness error), never a panic. Cells without documented behaviour are left out (cov with zero observations, GridBuilder with zero columns, constant strategy input). Distinct by hash of the instance. Non-trivial: an instance whose expected outcome is an error.",
            assumptions: COMMON_ASSUMPTIONS,
            profiles_quick: BOTH,
            profiles_thorough: BOTH,
            shards_quick: 8,
            shards_thorough: 16,
        },
        Prop {
            id: "C18",
            run: props::bulk::run_c18,
            replayers: props::bulk::replayers,
            rule: "proptest, four checkers: (a) quantiles_axis_mut / quantiles_mut with request lists of 0..32 q (any order, forced repeats, boundary-constructed q sharing lower/higher indexes) on arrays/axes/layouts/strategies/pivot scripts as in C01: slice j must equal the single-quantile call for q_j on a fresh copy (==); (b) get_many_from_sorted_mut vs get_from_sorted_mut per requested index; (c) central_moments(p)[k] vs central_moment(k) bit for bit, p in 0..10, f32/f64, 1-3-D layouts; (d) weighted_sum/mean/var/std_axis vs the whole-array routine on each lane (integers exact and equal to the i128 sum; floats within the summation budget; bit-identity is reported as a class). Checkers (a), (b) and (d) also run on long streams: lanes of up to 2500/5000 elements with up to 400 requests (both extremes, runs of adjacent ranks, tails; extremes placed at the lane ends), arrays of up to 3000/6000 elements with up to 300 requested ranks, and weighted per-axis routines on lanes of 600..5000/12000 elements. Distinct by hash of the whole case. Non-trivial: (a) >= 2 requests with a repeat or a shared index and lane length >= 3; (b) >= 2 requests with a repeat, length >= 3; (c) order >= 2, >= 3 non-constant elements; (d) >= 2-D, lane length >= 3, non-uniform weights.",
            assumptions: COMMON_ASSUMPTIONS,
            profiles_quick: BOTH,
            profiles_thorough: BOTH,
            shards_quick: 8,
            shards_thorough: 16,
        },
        Prop {
            id: "C19",
            run: props::order::run_c19,
            replayers: props::order::replayers,
            rule: "proptest lanes of every Ord element type (values as in C01; 64-bit integers below 2^52) with 1..13 boundary-constructed q plus 0 and 1, sorted; for each of the 5 strategies: non-decreasing in q, Q(0)=min, Q(1)=max, within [min,max]; Lower <= Nearest/Midpoint/Linear <= Higher at equal q; all five equal when (N-1)q is integral (required when the IEEE product and the exact rational product agree on that, since C01 accepts either reading of the documented index); equal results on a generated permutation of the lane; Lower/Higher/Nearest commute with a generated strictly increasing relabelling table. Float Midpoint/Linear order relations get a slack of 2 ulp of the largest lane magnitude. Two further streams: \"order-long\" (lanes of 129..3000/5000 elements, lengths around powers of two and block sizes; half of the lanes decreasing or with the maximum first) and \"order-many-q\" (one bulk call with 64..200 quantiles on lanes of 2..300 elements). Enumeration: ALL permutations of a distinct and a tied i32 lane of length <= 7 (quick) / 8 (thorough). Distinct by hash (random) / by construction (permutations). Non-trivial: >= 3 distinct values and (a q pair straddling/touching an index boundary, or a non-identity permutation, or a relabelling).",
            assumptions: COMMON_ASSUMPTIONS,
            profiles_quick: BOTH,
            profiles_thorough: BOTH,
            shards_quick: 8,
            shards_thorough: 16,
        },
        Prop {
            id: "C20",
            run: props::layoutdep::run_c20,
            replayers: props::layoutdep::replayers,
            rule: "proptest metamorphic: a canonical owned C-order array vs a second representation of the same logical array (column-major owned, view with permuted axes / steps 1..3 / reversal / offset inside a sentinel parent, mutable view, ArcArray, CowArray, static dimension type vs into_dyn), 1-4-D, f64 / i32 / Option<i32>, for two-operand routines both operands vary independently. One case evaluates the whole adapter table on both representations: min/max/argmin/argmax (+skipnan), fold/visit/indexed fold/per-axis fold, mean, harmonic and geometric mean, entropy, central_moment(s), skewness, kurtosis, all ten deviation measures, cross_entropy, kl_divergence, weighted_sum/mean/var/std and their per-axis forms, cov, pearson_correlation, histogram, GridBuilder, quantile(s)_axis_mut with four strategies, quantile_mut, quantiles_mut, get_from_sorted_mut, get_many_from_sorted_mut, partition_mut, quantile_axis_skipnan_mut and map_axis_skipnan_mut on f64 and Option<i32> (mutating routines on clones). Oracle: order-based, integer, error and shape results identical; float sums within twice the routine's summation budget; index-returning routines must designate an element equal to the canonical extremum. Distinct by hash. Non-trivial: the second representation is not the standard layout (or differs in ownership / dimension type) and some axis has length >= 2.",
            assumptions: NUM_ASSUMPTIONS,
            profiles_quick: BOTH,
            profiles_thorough: BOTH,
            shards_quick: 8,
            shards_thorough: 16,
        },
    ]
}

pub fn find(id: &str) -> Option<Prop> {
    all().into_iter().find(|p| p.id == id)
}
