#!/bin/sh
# MANIFEST.setup_cmd: build the harness (both profiles) offline from files on disk.
ROOT=$(cd "$(dirname "$0")" && pwd)
export CARGO_NET_OFFLINE=true
mkdir -p "$ROOT/out" "$ROOT/evidence"
cd "$ROOT/harness" || exit 1
cargo build --profile checked || exit 1
cargo build --profile fast || exit 1
echo "setup ok"
