#!/usr/bin/env python3
"""Automatic operator mutants of /repo/src (non-test code), a systematic sensitivity sweep.

Every candidate: one token replaced on one line. Apply -> build -> pinned suite. Mutants the
suite kills are only counted. Survivors are run against the quick checks related to the file;
the result table goes to runs/automut.json / runs/automut.md.

usage: tools_automut.py [--max N] [--only file-substring]
"""
import json, os, re, subprocess, sys, time, hashlib

REPO = "/repo"
FILES = ["src/sort.rs", "src/quantile/mod.rs", "src/quantile/interpolate.rs", "src/maybe_nan/mod.rs", "src/summary_statistics/means.rs",
         "src/correlation.rs", "src/deviation.rs", "src/entropy.rs", "src/histogram/bins.rs", "src/histogram/grid.rs",
         "src/histogram/histograms.rs", "src/histogram/strategies.rs"]
RELATED = {'src/sort.rs': 'C01,C02,C03,C14,C15,C16,C18,C19,C20', 'src/quantile/mod.rs': 'C01,C03,C05,C14,C17,C18,C19,C20', 'src/quantile/interpolate.rs': 'C01,C14,C18,C19,C20',
           'src/maybe_nan/mod.rs': 'C03,C04,C14,C20', 'src/summary_statistics/means.rs': 'C06,C07,C17,C18,C20', 'src/correlation.rs': 'C08,C17,C20',
           'src/deviation.rs': 'C09,C17,C20', 'src/entropy.rs': 'C10,C17,C20', 'src/histogram/bins.rs': 'C11,C12,C13,C16,C20', 'src/histogram/grid.rs': 'C11,C12,C13,C16,C20',
           'src/histogram/histograms.rs': 'C11,C12,C20', 'src/histogram/strategies.rs': 'C12,C17,C20'}
OPS = [(" < ", " <= "), (" <= ", " < "), (" > ", " >= "), (" >= ", " > "), (" == ", " != "), (" != ", " == "),
       (" + 1", " + 2"), (" - 1", " - 2"), (" + 1", ""), (" - 1", ""), ("..=", ".."), (" && ", " || "), (" || ", " && "),
       ("0.5", "0.25"), ("(0..", "(1.."), (".floor()", ".ceil()"), (".ceil()", ".floor()"), ("Axis(0)", "Axis(1)"), ("Axis(1)", "Axis(0)"),
       (" / ", " * "), (" * ", " / "), (".abs()", "")]
ENV = dict(os.environ, CARGO_NET_OFFLINE="true")


def sh(cmd, cwd=None, timeout=7200):
    p = subprocess.run(cmd, cwd=cwd, shell=True, capture_output=True, text=True, timeout=timeout, env=ENV)
    return p.returncode, p.stdout + p.stderr


def candidates():
    out = []
    for f in FILES:
        lines = open(os.path.join(REPO, f)).read().split("\n")
        in_test = False
        for no, line in enumerate(lines):
            st = line.strip()
            if st.startswith("#[cfg(test)]"):
                in_test = True
            if in_test or st.startswith("//") or st.startswith("#[") or "verif_hooks" in line or "assert" in line and "debug_assert" in line:
                continue
            if "//" in line:
                code = line[: line.index("//")]
            else:
                code = line
            if "where" == st or st.startswith("fn ") or st.startswith("pub fn ") or "->" in code and "fn" in code:
                continue
            for a, b in OPS:
                start = 0
                while True:
                    k = code.find(a, start)
                    if k < 0:
                        break
                    out.append((f, no, k, a, b))
                    start = k + len(a)
    return out


def main():
    mx = 400
    only = None
    for i, a in enumerate(sys.argv):
        if a == "--max":
            mx = int(sys.argv[i + 1])
        if a == "--only":
            only = sys.argv[i + 1]
    cands = candidates()
    if only:
        cands = [c for c in cands if only in c[0]]
    # deterministic sample
    cands.sort(key=lambda c: hashlib.sha1(repr(c).encode()).hexdigest())
    cands = cands[:mx]
    out_path = "/verif/runs/automut.json"
    results = json.load(open(out_path)) if os.path.exists(out_path) else {}
    for (f, no, k, a, b) in cands:
        key = f"{f}:{no + 1}:{k}:{a.strip()}->{b.strip() or '(removed)'}"
        if key in results:
            continue
        rc, o = sh("git -C /repo status --porcelain")
        assert o.strip() == "", "/repo not clean: " + o
        path = os.path.join(REPO, f)
        lines = open(path).read().split("\n")
        line = lines[no]
        assert line[k : k + len(a)] == a
        lines[no] = line[:k] + b + line[k + len(a) :]
        rec = {"file": f, "line": no + 1, "original": line.strip(), "mutated": lines[no].strip()}
        open(path, "w").write("\n".join(lines))
        try:
            rc, o = sh("cargo build --offline --features verif_hooks 2>&1 | tail -3", cwd=REPO)
            if "error" in o or "could not compile" in o:
                rec["status"] = "does not compile"
            else:
                rc, o = sh("timeout 600 cargo nextest run --workspace --no-fail-fast --offline 2>&1 | tail -4", cwd=REPO)
                if "116 passed" in o and " failed" not in o.split("Summary")[-1]:
                    rec["status"] = "survives the pinned suite"
                    det = []
                    for c in RELATED[f].split(","):
                        rc, o2 = sh(f"timeout 1500 ./check {c} quick", cwd="/verif")
                        rec.setdefault("exit", {})[c] = rc
                        if rc == 1:
                            det.append(c)
                    rec["detected_by"] = det
                else:
                    rec["status"] = "killed by the pinned suite"
        finally:
            sh("git -C /repo checkout -- .")
        results[key] = rec
        json.dump(results, open(out_path, "w"), indent=1)
        print(key, "|", rec["status"], rec.get("detected_by", ""), flush=True)
    surv = {k: r for k, r in results.items() if r["status"] == "survives the pinned suite"}
    with open("/verif/runs/automut.md", "w") as md:
        n = len(results)
        md.write(f"{n} automatic mutants: {sum(1 for r in results.values() if r['status']=='does not compile')} do not compile, "
                 f"{sum(1 for r in results.values() if r['status']=='killed by the pinned suite')} killed by the pinned suite, {len(surv)} survive it; "
                 f"of the survivors {sum(1 for r in surv.values() if r.get('detected_by'))} make a quick check exit 1.\n\n")
        md.write("| surviving mutant | original -> mutated | quick checks that exit 1 |\n|---|---|---|\n")
        for k, r in surv.items():
            md.write(f"| {k} | `{r['original']}` -> `{r['mutated']}` | {', '.join(r.get('detected_by', [])) or '-'} |\n")


if __name__ == "__main__":
    main()
