#!/usr/bin/env python3
"""Regenerates MANIFEST.json from the table below (kept in one place so it stays valid)."""
import json, subprocess, sys
ROOT = "/verif"
props = [json.loads(l) for l in open(f"{ROOT}/properties.jsonl")]
ids = [p["id"] for p in props]

# id -> (technique, level text, level note, design ref)
claimed = {
 "C01": ("proptest over type x shape x axis x layout x values x boundary-constructed q x strategy x API x pivot scripts + bounded-exhaustive patterns x ALL pivot sequences; oracle = full sort + documented index, exact integer/dyadic acceptance",
         "Every lane of every generated array is compared with the strategy applied to its fully sorted copy at floor/ceil((N-1)q), for q constructed on, one and two ulps around every index boundary and .5 fraction; results must be identical under different pivot scripts. Small patterns are complete over all pivot sequences. The Midpoint/Linear difference-overflow defect is an open known finding and routed by its exact signature.",
         "Accepts either reading of '(N-1)q' (IEEE product as the code evaluates it, or exact rational) where they differ; Nearest tie at exactly .5 accepts either neighbour; N64 Midpoint/Linear tolerance 4 ulp of the larger neighbour.", "5/C01"),
 "C03": ("proptest over every mutating entry point on views into a sentinel-filled parent; oracle = guard elements bit-identical + per-lane multiset of bit patterns",
         "Each in-place routine is run on generated views (permuted axes, steps, reversal, padding) of every dimensionality it supports; the whole parent buffer is compared before/after, so writes outside the view, lost/duplicated elements and movement between lanes are all visible.",
         "A guard overwritten with a value equal to the sentinel would be missed (the sentinel is a value the generators do not produce).", "5/C03"),
 "C04": ("bounded-exhaustive enumeration of missing-masks x 14 MaybeNan impls x strides x offsets + proptest; metadata-first aliasing oracle, multiset/determinism/idempotence",
         "Complete over all masks up to length 12/16 for every MaybeNan impl and stride in {-3..3}\\{0}; the returned view's pointer/length/stride are checked to designate only distinct elements of the input view before anything is read.",
         "Address arithmetic on the returned view's metadata is done by the harness; reading through NotNan is avoided (its Deref is UB on a missing value).", "5/C04"),
 "C02": ("bounded-exhaustive enumeration of weak-order patterns x requests x ALL pivot sequences (DFS through a pivot hook) + proptest with scripted pivots, oracle = full sort",
         "Complete over order patterns and pivot sequences up to the stated length (the routine can only compare and clone, so longer inputs differ only in pattern), random search with adversarial pivot scripts beyond it; every execution is compared with a full sort, the partition post-condition and the multiset.",
         "Trusts std sort, ndarray slicing and the pivot hook (which replaces the drawn pivot only when a script is installed).", "5/C02"),
 "C05": ("proptest over type x 0-4-D shape x layout x ownership x NaN/tie placements; oracle = independent scan of the logical data",
         "Every generated array (incl. empty, zero-length axes, 0-D, NaN at first/middle/last) is scanned independently; index and value forms must designate a true extremum, agree with each other, and report EmptyInput / UndefinedOrder exactly when documented.",
         "Which of several equal extrema is returned is not constrained (documented as unspecified).", "5/C05"),
 "C06": ("proptest with an exact big-integer oracle and an explicit forward-error budget; integers exact",
         "Inputs are dyadic rationals, so every sum and product is known exactly; results must lie within (2n+8)u times the exact sum of absolute terms (cross-multiplied, no reference rounding), integers must be exact including truncating division, per-axis forms are judged lane by lane, data and weights use independent memory layouts.",
         "Budget formula from DESIGN.md appendix C; geometric mean reference is libm-based (its 1-ulp error is charged).", "5/C06"),
 "C07": ("proptest with exact rational variance/moments and range-based / moment budgets",
         "Exact rational variance and central moments (big integers) against weighted_var/std(+axis), central_moment(s), skewness, kurtosis; orders 0/1 bit-exact; zero weights at first/middle/last positions are an explicit generator class.",
         "Variance budget is range-based because the documented update is one-pass; non-resolving cases (budget > 2^-10 of the value) are only sanity-checked and not counted as non-trivial.", "5/C07"),
 "C08": ("proptest with exact covariance sums, budgeted comparison, metamorphic affine/negation relations",
         "Every entry of cov and pearson_correlation against exact sums of products; symmetry, diagonal, range, affine invariance and sign flip.",
         "Correlation budget is first-order propagation of the covariance and range-based variance budgets.", "5/C08"),
 "C09": ("proptest differential against an exact element-wise loop over logical indexes, all layout x ownership pairings",
         "Integer (i32, i64, BigInt) results must equal the exact i128 computation; float results within (2n+8)u; derived measures recomputed with the documented formula; symmetry and identity.",
         "Integer magnitudes are bounded from n so the element type cannot overflow (as the property states).", "5/C09"),
 "C10": ("proptest against a compensated f64 reference with term-wise zero/NaN/inf rules and identities",
         "Value, zero-term, infinity and NaN behaviour of the three routines plus the four identities of the property, with independent layouts for p and q.",
         "Reference uses libm ln on f64 (error charged); normalisation defect is charged to the bounds that assume sum p = 1.", "5/C10"),
 "C11": ("proptest operation sequences against a dictionary model, invariant after every step; matrix forms and permuted order as metamorphic relations",
         "Histories of inserts (inside, on every edge, outside) on grids of 1-3 arbitrary axes are replayed against a model with linear-scan bin lookup; counts, shape and the accept/reject decision are compared after every single step, then against row-major, column-major and permuted matrix input.",
         "No stateful proptest library is installed; histories are vec(op) + interpreter, shrunk as one value.", "5/C11"),
 "C12": ("proptest over type x strategy x data class with a counted termination bound (fuel hook); oracle = edge/cover/count invariants",
         "Data classes target the failure modes (inexact grids, offsets with ulp-sized spread, zero IQR); every accepted build is checked for first edge == min, equal widths, last edge in (max, max+width], total coverage and n_bins agreement; termination is a counted bound, not a timeout.",
         "Domain precondition (max-min)/width <= 1e5 (counted as discarded otherwise); integers within +-MAX/4 as the property states.", "5/C12"),
 "C13": ("bounded-exhaustive enumeration of edge sequences x all probes + proptest; oracle = BTreeSet + linear scan",
         "Complete over every edge multiset and input order up to length 6/7 with every probe position; random lists and grids beyond; all accessors cross-checked.",
         "Only comparisons are used by the code, so small alphabets are representative.", "5/C13"),
 "C14": ("proptest over type x shape x axis x layout x mask x q x strategy x pivots; differential oracle = plain operation on harness-filtered data (quantiles via the C01 oracle)",
         "All nine skip-NaN operations are exercised on every generated array and compared with the plain operation on the data with missing values deleted, lane by lane for the per-axis forms; folds/visits are checked to see each remaining element exactly once.",
         "Value data are small integers / halves so that Midpoint/Linear stay inside the representable range; the known Midpoint/Linear overflow finding is routed by signature as in C01.", "5/C14"),
 "C15": ("bounded-exhaustive enumeration of weak-order patterns x pivot positions x strides + proptest, oracle = rank by counting",
         "Complete over order patterns, pivot positions and five view strides up to length 7/8; random arrays up to 500 elements beyond it. Both build profiles.",
         "Trusts ndarray slicing to build the strided views.", "5/C15"),
 "C17": ("enumerated decision table (routine x emptiness x second-argument shape x q scenario x type x layout) with seeded instances; oracle = cell value derived from the documentation",
         "All 47 fallible routines are driven through every cell of the documented error table; the error variant, its payload (both shapes / the first offending q) and the absence of panics are compared with the documented outcome.",
         "Cells with no documented behaviour are left out and listed in the rule; cov with zero variables is an open known finding routed by its exact signature.", "5/C17"),
 "C18": ("proptest differential: bulk call vs single-item calls on fresh copies (quantiles, selection, moments bit-for-bit, per-axis weighted forms vs lane routine)",
         "Request lists with forced repeats and shared lower/higher indexes, any order, 0..32 items; every slice of every bulk result is compared with its single-item counterpart; moments bitwise; per-axis forms also against exact integer sums.",
         "Float per-axis forms are required to agree within the summation budget (they were bit-identical in every run; reported as a class).", "5/C18"),
 "C19": ("proptest metamorphic/order laws + all permutations of small lanes; no value oracle",
         "Monotonicity in q, end points, Lower<=X<=Higher, coincidence at integral index, permutation invariance (complete for lanes up to 6/8), commutation with strictly increasing relabellings.",
         "Float Midpoint/Linear relations allow 2 ulp of the largest lane magnitude.", "5/C19"),
 "C16": ("enumerated out-of-range/in-range decision table x ALL pivot sequences in two build profiles + proptest, oracle = unwinds iff some position >= length",
         "Every out-of-range position class on every order pattern up to length 6/7 under every pivot sequence, with and without debug assertions/overflow checks; Bins/Grid index by generated cases.",
         "'Every build profile' is sampled as two profiles (all checks on / all off).", "5/C16"),
 "C20": ("proptest metamorphic relation: canonical owned C-order array vs a second representation (layout / ownership / dimension type) over an adapter table of all public routines",
         "Every routine of the crate is evaluated on both representations in one case; identical results are demanded for order-based, integer, shape and error outcomes, twice the summation budget for float sums, and value-equality of the designated element for index-returning routines.",
         "Float tolerances reuse the budgets of C06-C10 (both evaluations are individually within budget of the exact value).", "5/C20"),
}

checks = []
for i in ids:
    if i in claimed:
        tech, text, note, ref = claimed[i]
        checks.append({
            "property_id": i,
            "quick_cmd": f"./check {i} quick",
            "thorough_cmd": f"./check {i} thorough",
            "evidence_file": f"/verif/evidence/{i}.json",
            "replay_cmd_template": f"./check {i} --replay {{path}}",
            "engine": "nsv",
            "level_claimed": {"category": "exploration", "text": text, "design_ref": f"DESIGN.md section {ref}"},
            "level_note": note,
            "technique": "property-based testing: " + tech,
        })
na = [{"property_id": i, "reason": "check not built yet in this revision of /verif (planned: property-based check, see DESIGN.md section 5); not claimed until it runs silent on the unchanged tree"} for i in ids if i not in claimed]

hook_commits = subprocess.run(["git","-C","/repo","log","--format=%h","--grep=^verif hooks"],capture_output=True,text=True).stdout.split()
m = {
 "version": 1,
 "setup_cmd": "./setup.sh",
 "hooks": {
   "guard": "cargo feature `verif_hooks` of ndarray-stats",
   "enable": "the harness crate depends on ndarray-stats = { path = \"/repo\", features = [\"verif_hooks\"] }; every ./check invocation runs cargo build first",
   "baseline_off_cmd": "cd /repo && cargo nextest run --workspace --no-fail-fast --offline || cargo test --workspace --no-fail-fast --offline",
   "source_commits": hook_commits,
   "add_only": True,
 },
 "engines": [
   {"name": "nsv", "path": "/verif/harness", "serves_properties": sorted(claimed.keys()),
    "kind_free_text": "Rust harness: proptest TestRunner driven from a binary (fixed seeds, shrinking, replay files), bounded-exhaustive enumerators (weak orders, masks, pivot-sequence DFS), driver/worker processes, two build profiles"},
   {"name": "nsv-fuzz", "path": "/verif/fuzz", "serves_properties": ["C01","C02","C03","C04","C11","C12","C13","C14","C15","C16","C18","C19"],
    "kind_free_text": "cargo-fuzz / libFuzzer targets sel, nan, quant, hist (AddressSanitizer, debug assertions): bytes are decoded with arbitrary::Unstructured into the same case structs and judged by the same check functions; run by the thorough tier with a fixed number of runs and a seed derived from VERIF_SEED"},
 ],
 "checks": checks,
 "not_applicable": na,
 "notes": "All checks: exit 0 = held, 1 = VIOLATION line, 2 = inconclusive (build failure / watchdog / out of memory). Known findings and fixed defects: known_findings.json; regression inputs: replays/; independently seeded breaking changes and which checks catch them: seeded/ and DESIGN.md section 10.5. Env: VERIF_SEED, VERIF_TIER, NSV_CASE_SCALE (case-count multiplier), NSV_NO_FUZZ (skip libFuzzer in the thorough tier).",
}
json.dump(m, open(f"{ROOT}/MANIFEST.json","w"), indent=1)
print("claimed", len(checks), "not_applicable", len(na))
