#!/bin/sh
# Long libFuzzer campaigns (background exploration, not evidence): every target x every armed property
# for $1 seconds each. Usage: tools_longfuzz.sh <seconds> ; run from the /verif root (or a snapshot of it).
ROOT=$(cd "$(dirname "$0")" && pwd)
SECS=${1:-600}
export CARGO_NET_OFFLINE=true NSV_ROOT="$ROOT"
cd "$ROOT/fuzz" || exit 2
mkdir -p "$ROOT/out/longfuzz"
for spec in sel:C02 sel:C15 sel:C16 sel:C03 nan:C04 nan:C14 nan:C03 quant:C01 quant:C18 quant:C19 hist:C11 hist:C12 hist:C13; do
  T=${spec%:*}; P=${spec#*:}
  C="$ROOT/out/longfuzz/$T-$P"; mkdir -p "$C"
  NSV_PROP=$P cargo +nightly fuzz run --fuzz-dir . $T "$C" -- -max_total_time=$SECS -len_control=0 -max_len=512 -seed=12345 -print_final_stats=1 -artifact_prefix="$C/" 2>&1 | grep -E "NSV-FUZZ-VIOLATION|ERROR|stat::number_of_executed_units|stat::new_units_added" | sed "s/^/$T $P: /"
done
echo LONGFUZZ DONE
