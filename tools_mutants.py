#!/usr/bin/env python3
"""Design-time sensitivity mutants (DESIGN.md section 5, lists "S"): one-line source changes.

For each mutant: apply it to /repo (exact text replacement, must match once), build, run the
pinned suite; if the suite kills it, record that and move on (it is not a change the suite
misses); otherwise run the related quick checks, record which exit 1, and restore /repo.

usage: tools_mutants.py [name ...]      (default: all)      writes runs/mutants.json / runs/mutants.md
"""
import json, os, subprocess, sys, time

M = [
 # name, file, old, new, related checks
 ("lower_index-round", "src/quantile/interpolate.rs", "float_quantile_index(q, len).floor().to_usize().unwrap()", "float_quantile_index(q, len).round().to_usize().unwrap()", "C01,C14,C18,C19,C20"),
 ("nearest-flipped", "src/quantile/interpolate.rs", "float_quantile_index_fraction(q, len) < 0.5", "float_quantile_index_fraction(q, len) > 0.5", "C01,C14,C18,C19"),
 ("linear-one-minus-fraction", "src/quantile/interpolate.rs", "lower.clone() + T::from_f64(fraction * (higher_f64 - lower_f64)).unwrap()", "lower.clone() + T::from_f64((1.0 - fraction) * (higher_f64 - lower_f64)).unwrap()", "C01,C14,C18,C19"),
 ("midpoint-div-3", "src/quantile/interpolate.rs", "let denom = T::from_u8(2).unwrap();", "let denom = T::from_u8(3).unwrap();", "C01,C14,C19"),
 ("quantiles-no-dedup", "src/quantile/mod.rs", "            searched_indexes.dedup();\n", "", "C01,C03,C18,C19"),
 ("quantiles-data-lanes-axis0", "src/quantile/mod.rs", "                .and(data.lanes_mut(axis))", "                .and(data.lanes_mut(Axis(0)))", "C01,C03,C18,C20"),
 ("argmin-skipnan-le-to-ge", "src/quantile/mod.rs", "Some(m) if (m <= elem) => m,", "Some(m) if (m >= elem) => m,", "C14,C20"),
 ("select-lt-to-le", "src/sort.rs", "            if i < partition_index {", "            if i <= partition_index {", "C02,C16,C01"),
 ("bulk-skip-exact-write", "src/sort.rs", "        other_values[0] = array[array_partition_index].clone(); // Write exactly found value.\n", "", "C02,C01,C18"),
 ("bulk-rebase-off-by-one", "src/sort.rs", "        .for_each(|x| *x -= array_partition_index + 1);", "        .for_each(|x| *x -= array_partition_index);", "C02,C01,C18"),
 ("partition-ge-to-gt", "src/sort.rs", "                if self[i] >= pivot_value {", "                if self[i] > pivot_value {", "C15,C02,C03"),
 ("select-assert-removed", "src/sort.rs", "        assert!(i < n, \"index {} out of bounds for array of length {}\", i, n);\n", "", "C16"),
 ("bulk-assert-le", "src/sort.rs", "                max_index < n,", "                max_index <= n,", "C16"),
 ("cast-no-invert", "src/maybe_nan/mod.rs", "        v.invert_axis(Axis(0));\n", "", "C04,C03,C14"),
 ("cast-len-le-2", "src/maybe_nan/mod.rs", "    if len <= 1 {", "    if len <= 2 {", "C04,C03,C14"),
 ("remove-nan-j-not-i", "src/maybe_nan/mod.rs", "            return view.slice_move(s![..i]);", "            return view.slice_move(s![..j]);", "C04,C03,C14"),
 ("histogram-axis1", "src/histogram/histograms.rs", "        for point in self.axis_iter(Axis(0)) {", "        for point in self.axis_iter(Axis(1)) {", "C11,C12,C20"),
 ("build-one-edge-short", "src/histogram/strategies.rs", "        for i in 0..=n_bins {", "        for i in 0..n_bins {", "C12"),
 ("n_bins-ge", "src/histogram/strategies.rs", "            if edge > self.max {", "            if edge >= self.max {", "C12"),
 ("indices_of-last-edge", "src/histogram/bins.rs", "            Ok(i) if i == n_edges - 1 => None,", "            Ok(i) if i == n_edges => None,", "C13,C11,C12,C16"),
 ("indices_of-shifted", "src/histogram/bins.rs", "                j => Some((j - 1, j)),", "                j => Some((j, j + 1)),", "C13,C11,C12"),
 ("edges-no-dedup", "src/histogram/bins.rs", "        edges.dedup();\n", "", "C13,C11"),
 ("shape-mismatch-payload-swapped", "src/lib.rs", "                    first_shape: $arr_a.shape().to_vec(),\n                    second_shape: $arr_b.shape().to_vec(),", "                    first_shape: $arr_b.shape().to_vec(),\n                    second_shape: $arr_a.shape().to_vec(),", "C17"),
 ("weighted-mean-axis-no-empty-guard", "src/summary_statistics/means.rs", "        return_err_if_empty!(self);\n        let mut weighted_sum = self.weighted_sum_axis(axis, weights)?;", "        let mut weighted_sum = self.weighted_sum_axis(axis, weights)?;", "C17,C06"),
 ("var-no-ddof", "src/summary_statistics/means.rs", "    Ok(s / (weight_sum - ddof))", "    Ok(s / weight_sum)", "C07,C18,C20"),
 ("kurtosis-uses-m3", "src/summary_statistics/means.rs", "Ok(central_moments[4] / central_moments[2].powi(2))", "Ok(central_moments[3] / central_moments[2].powi(2))", "C07,C20"),
 ("weighted-sum-axis-rev-weights", "src/summary_statistics/means.rs", "            lane.iter()\n                .zip(weights)\n                .fold(A::zero(), |acc, (&d, &w)| acc + d * w)", "            lane.iter()\n                .zip(weights.iter().rev())\n                .fold(A::zero(), |acc, (&d, &w)| acc + d * w)", "C06,C18,C20"),
 ("cov-no-ddof", "src/correlation.rs", "            n_observations - ddof\n", "            n_observations\n", "C08,C20"),
 ("cov-transposed-product", "src/correlation.rs", "let covariance = denoised.dot(&denoised.t());", "let covariance = denoised.t().dot(&denoised);", "C08,C20"),
 ("l1-no-abs", "src/deviation.rs", "            result += (a - b).abs();", "            result += a - b;", "C09,C20"),
 ("linf-ge", "src/deviation.rs", "            if diff > max {", "            if diff >= max {", "C09"),
 ("kl-inverted-ratio", "src/entropy.rs", "                        p * (q / p).ln()", "                        p * (p / q).ln()", "C10,C20"),
 ("entropy-no-zero-branch", "src/entropy.rs", "                    if x == A::zero() {\n                        A::zero()\n                    } else {\n                        x * x.ln()\n                    }", "                    x * x.ln()", "C10"),
 ("cross-entropy-no-negation", "src/entropy.rs", "        let cross_entropy = -temp.sum();", "        let cross_entropy = temp.sum();", "C10,C20"),
]

ENV = dict(os.environ, CARGO_NET_OFFLINE="true")


def sh(cmd, cwd=None, timeout=7200):
    p = subprocess.run(cmd, cwd=cwd, shell=True, capture_output=True, text=True, timeout=timeout, env=ENV)
    return p.returncode, p.stdout + p.stderr


def main():
    want = set(sys.argv[1:])
    out_path = "/verif/runs/mutants.json"
    results = json.load(open(out_path)) if os.path.exists(out_path) else {}
    for name, f, old, new, checks in M:
        if want and name not in want:
            continue
        if old == new:
            continue
        rc, o = sh("git -C /repo status --porcelain")
        assert o.strip() == "", "/repo not clean: " + o
        path = "/repo/" + f
        src = open(path).read()
        rec = {"file": f, "old": old, "new": new}
        if src.count(old) != 1:
            rec["status"] = "site not found exactly once (%d)" % src.count(old)
            results[name] = rec
            print(name, rec["status"])
            continue
        open(path, "w").write(src.replace(old, new))
        try:
            rc, o = sh("cargo build --offline --features verif_hooks 2>&1 | tail -3", cwd="/repo")
            if "error" in o:
                rec["status"] = "does not compile"
            else:
                rc, o = sh("cargo nextest run --workspace --no-fail-fast --offline 2>&1 | tail -4", cwd="/repo")
                if "116 passed" in o and " failed" not in o.split("Summary")[-1]:
                    rec["status"] = "survives the pinned suite"
                    det = []
                    for c in checks.split(","):
                        t0 = time.time()
                        rc, o = sh(f"./check {c} quick", cwd="/verif")
                        if rc == 1:
                            det.append(c)
                        rec.setdefault("checks", {})[c] = {"exit": rc, "wall_s": round(time.time() - t0, 1)}
                    rec["detected_by"] = det
                else:
                    rec["status"] = "killed by the pinned suite"
                    rec["suite_tail"] = o.strip().splitlines()[-1] if o.strip() else ""
        finally:
            sh("git -C /repo checkout -- .")
        results[name] = rec
        json.dump(results, open(out_path, "w"), indent=1)
        print(name, rec["status"], rec.get("detected_by", ""))
    # markdown summary
    with open("/verif/runs/mutants.md", "w") as md:
        md.write("| mutant | file | outcome | quick checks that exit 1 |\n|---|---|---|---|\n")
        for name, rec in results.items():
            md.write(f"| {name} | {rec['file']} | {rec.get('status')} | {', '.join(rec.get('detected_by', [])) or '-'} |\n")


if __name__ == "__main__":
    main()
