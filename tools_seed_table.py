#!/usr/bin/env python3
"""Prints the markdown table 'which checks catch which seeded change' from seeded/*/meta.json."""
import glob, json, os, re

rows = []
for d in sorted(glob.glob("/verif/seeded/*")):
    mf = os.path.join(d, "meta.json")
    if not os.path.exists(mf):
        continue
    m = json.load(open(mf))
    name = os.path.basename(d)
    what = m.get("summary", "")
    if not what:
        # first heading / sentence of the agent's notes about this patch
        notes = os.path.join(d, "NOTES.md")
        what = ""
        if os.path.exists(notes):
            txt = open(notes).read()
            k = name.split("-")[-1]
            mm = re.search(r"(?is)patch\s*%s\b(.{0,400})" % re.escape(k), txt)
            if mm:
                what = " ".join(mm.group(1).split())[:160]
    det = m.get("detected_by", [])
    tgt = m.get("breaks_property")
    status = "caught by its own property's check" if tgt in det else ("caught only by other properties' checks" if det else "NOT caught")
    rows.append((name, tgt, m.get("confirmed"), ", ".join(det) if det else "-", status, what))

print("| seeded change | breaks | confirmed | quick checks that exit 1 | verdict |")
print("|---|---|---|---|---|")
for r in rows:
    print(f"| {r[0]} | {r[1]} | {'yes' if r[2] else 'NO'} | {r[3]} | {r[4]} |")
