#!/usr/bin/env python3
"""Confirms a seeded change in a scratch worktree and runs the /verif checks against it.

usage: tools_seedtest.py <ID> <k> <patch.diff> <demo.rs> [--checks C01,C02,...] [--tier quick]

1. scratch worktree of /repo (outside /repo and /verif): patch applies, builds (with and
   without the hooks feature), the pinned suite passes, the demonstration fails with the
   patch and passes without it;
2. git -C /repo apply <patch>; ./check <P> quick for every requested property; git -C /repo checkout -- .
3. writes /verif/seeded/<ID>-<k>/{patch.diff, demo.rs, meta.json}
"""
import json, os, shutil, subprocess, sys, time

ROOT = "/verif"
SCR = os.environ.get("SEED_SCR", "/tmp/confirm")
TGT = os.environ.get("SEED_TGT", "/tmp/confirm-target")
ENV = dict(os.environ, CARGO_NET_OFFLINE="true", CARGO_TARGET_DIR=TGT)
CACHE = "/tmp/seed/confirm"


def run(cmd, cwd=None, env=None, timeout=3600):
    p = subprocess.run(cmd, cwd=cwd, env=env, shell=isinstance(cmd, str), capture_output=True, text=True, timeout=timeout)
    return p.returncode, p.stdout + p.stderr


def main():
    pid, k, patch, demo = sys.argv[1:5]
    checks = None
    tier = "quick"
    for i, a in enumerate(sys.argv):
        if a == "--checks":
            checks = sys.argv[i + 1].split(",")
        if a == "--tier":
            tier = sys.argv[i + 1]
    ids = [json.loads(l)["id"] for l in open(f"{ROOT}/properties.jsonl")]
    if checks is None:
        checks = ids
    meta = {"breaks_property": pid, "patch": os.path.basename(patch), "demo": os.path.basename(demo), "ran": []}
    notes = os.path.join(os.path.dirname(patch), "NOTES.md")
    only_confirm = "--only-confirm" in sys.argv
    os.makedirs(CACHE, exist_ok=True)
    cache_file = f"{CACHE}/{pid}-{k}.json"
    if os.path.exists(cache_file) and not only_confirm:
        conf = json.load(open(cache_file))
        meta["confirmation"] = conf
        confirmed = all(conf.get(x) for x in ["applies", "builds", "suite_passes_with_patch", "demo_fails_with_patch", "demo_passes_without_patch"])
        meta["confirmed"] = confirmed
        return finish(meta, pid, k, patch, demo, notes, checks, tier, confirmed, conf)
    # ---- 1. confirmation in a scratch worktree
    run(f"git -C /repo worktree remove --force {SCR}")
    shutil.rmtree(SCR, ignore_errors=True)
    rc, out = run(f"git -C /repo worktree add --detach {SCR} HEAD")
    assert rc == 0, out
    shutil.copy("/repo/Cargo.lock", SCR)
    conf = {}
    rc, out = run(f"git apply {patch}", cwd=SCR)
    conf["applies"] = rc == 0
    if rc == 0:
        rc1, o1 = run("cargo build --offline -j 8", cwd=SCR, env=ENV)
        rc2, o2 = run("cargo build --offline -j 8 --features verif_hooks", cwd=SCR, env=ENV)
        conf["builds"] = rc1 == 0 and rc2 == 0
        rc, out = run("cargo nextest run --workspace --no-fail-fast --offline 2>&1 | tail -3", cwd=SCR, env=ENV)
        conf["suite_with_patch"] = out.strip().splitlines()[-1] if out.strip() else ""
        conf["suite_passes_with_patch"] = "116 passed" in out and "failed" not in out.split("Summary")[-1]
        shutil.copy(demo, f"{SCR}/tests/zz_demo.rs")
        rc, out = run("cargo test --offline --test zz_demo 2>&1 | tail -5", cwd=SCR, env=ENV)
        conf["demo_fails_with_patch"] = "test result: FAILED" in out or "error" in out.lower() and "test result: ok" not in out
        conf["demo_with_patch_tail"] = out.strip().splitlines()[-1] if out.strip() else ""
        run("git checkout -- src", cwd=SCR)
        rc, out = run("cargo test --offline --test zz_demo 2>&1 | tail -5", cwd=SCR, env=ENV)
        conf["demo_passes_without_patch"] = "test result: ok" in out
    run(f"git -C /repo worktree remove --force {SCR}")
    meta["confirmation"] = conf
    confirmed = all(conf.get(x) for x in ["applies", "builds", "suite_passes_with_patch", "demo_fails_with_patch", "demo_passes_without_patch"])
    meta["confirmed"] = confirmed
    json.dump(conf, open(cache_file, "w"), indent=1)
    if only_confirm:
        print(pid, k, "confirmation:", "ok" if confirmed else json.dumps(conf))
        return
    return finish(meta, pid, k, patch, demo, notes, checks, tier, confirmed, conf)


def finish(meta, pid, k, patch, demo, notes, checks, tier, confirmed, conf):
    # ---- 2. the checks against the patched /repo
    results = {}
    if confirmed:
        rc, out = run("git -C /repo status --porcelain")
        assert out.strip() == "", "/repo is not clean: " + out
        rc, out = run(f"git -C /repo apply {patch}")
        assert rc == 0, out
        try:
            for c in checks:
                t0 = time.time()
                rc, out = run(f"./check {c} {tier}", cwd=ROOT, env=dict(os.environ, VERIF_SEED=os.environ.get("VERIF_SEED", "0")))
                viol = [l for l in out.splitlines() if l.startswith("VIOLATION")]
                results[c] = {"exit": rc, "violation_lines": len(viol), "wall_s": round(time.time() - t0, 1)}
                if rc == 1 and viol:
                    # keep the first replay's message for the record
                    path = viol[0].split("replay=")[-1].strip()
                    try:
                        r = json.load(open(path))
                        results[c]["first_replay"] = {"checker": r.get("checker"), "kind": r.get("kind"), "message": r.get("message", "")[:400]}
                    except Exception:
                        pass
                meta["ran"].append(f"./check {c} {tier} -> exit {rc}")
        finally:
            run("git -C /repo checkout -- .")
            rc, out = run("git -C /repo status --porcelain")
            assert out.strip() == "", "/repo not restored: " + out
    meta["check_results"] = results
    meta["detected_by"] = sorted([c for c, r in results.items() if r["exit"] == 1])
    meta["target_property_detected"] = pid in meta["detected_by"]
    if os.path.exists(notes):
        meta["needs_to_manifest"] = "see NOTES.md (written by the seeding agent)"
    out_dir = f"{ROOT}/seeded/{pid}-{k}"
    os.makedirs(out_dir, exist_ok=True)
    shutil.copy(patch, f"{out_dir}/patch.diff")
    shutil.copy(demo, f"{out_dir}/demo.rs")
    if os.path.exists(notes):
        shutil.copy(notes, f"{out_dir}/NOTES.md")
    json.dump(meta, open(f"{out_dir}/meta.json", "w"), indent=1)
    print(pid, k, "confirmed" if confirmed else "NOT-CONFIRMED " + json.dumps(conf), "detected_by", meta["detected_by"])


if __name__ == "__main__":
    main()
