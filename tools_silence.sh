#!/bin/sh
# runs every quick (or $TIER) check on the current tree for the given seeds; prints one line per run
cd "$(dirname "$0")"
TIER=${TIER:-quick}
for seed in "$@"; do
  for i in 01 02 03 04 05 06 07 08 09 10 11 12 13 14 15 16 17 18 19 20; do
    S=$(date +%s)
    OUT=$(VERIF_SEED=$seed ./check C$i $TIER 2>&1); RC=$?
    E=$(date +%s)
    echo "seed=$seed C$i exit=$RC $((E-S))s $(echo "$OUT" | grep -c '^VIOLATION') violations :: $(echo "$OUT" | tail -1 | cut -c1-150)"
    if [ $RC -ne 0 ]; then echo "$OUT" | grep -v "^KNOWN" | head -5 | cut -c1-400; fi
  done
done
